/-
  C06 — Validation verdict is exactly "size and checksum match the content".
-/
import HSModel.Spec
import HSModel.Proofs.RefineAll
import HSModel.Proofs.StepLemmas
import HSModel.Proofs.Valid
namespace HS.C06

/-- the digest the verdict compares against -/
abbrev usedDigest := @digestFor

def sizeOk (trueSize : Nat) : IArg → Prop
  | .int i => ¬ (i > 0 ∧ i ≠ (trueSize : Int))
  | _ => True

theorem sizeMismatch_iff (n : Nat) (sz : IArg) : sizeMismatch sz n = true ↔ ¬ sizeOk n sz := by
  unfold sizeMismatch sizeOk
  cases sz <;> simp

def checksumOk (digests : List (Str × Str)) (onDemand : Str → Str) :
    Option Str → Option Str → Prop
  | some c, some a => usedDigest digests onDemand a = lower c
  | _, _ => True

/-- valid ⇔ size matches (or absent) ∧ checksum matches case-insensitively (or
    absent) — on both checksum paths, for every algorithm name and digest table -/
theorem verdict_valid_iff (ds : List (Str × Str)) (od : Str → Str) (n : Nat) (sz : IArg)
    (cs a : Option Str) :
    verdict ds od n sz cs a = .valid ↔ sizeOk n sz ∧ checksumOk ds od cs a := by
  unfold verdict sizeMismatch sizeOk checksumOk usedDigest digestFor
  cases sz <;> cases cs <;> cases a <;> simp <;> (repeat' split) <;> simp_all <;> grind

/-- a bad size is reported as such, before any checksum comparison -/
theorem verdict_badSize_iff (ds : List (Str × Str)) (od : Str → Str) (n : Nat) (sz : IArg)
    (cs a : Option Str) :
    verdict ds od n sz cs a = .badSize ↔ ¬ sizeOk n sz := by
  unfold verdict sizeMismatch sizeOk
  cases sz <;> cases cs <;> cases a <;> simp <;> (repeat' split) <;> simp_all

/-- the verdict does not depend on the case of the checksum's hex letters
    (`lower (lower c) = lower c` for ASCII; stated for any two checksums with
    the same lower-casing) -/
theorem verdict_case_insensitive (ds : List (Str × Str)) (od : Str → Str) (n : Nat) (sz : IArg)
    (c c' : Str) (a : Option Str) (h : lower c = lower c') :
    verdict ds od n sz (some c) a = verdict ds od n sz (some c') a := by
  unfold verdict
  cases a <;> simp [h]

/-- the mismatch classes -/
theorem verdict_exc (v : Verdict) :
    (v.exc = none ↔ v = .valid) ∧ (v.exc = some .nonMatchingObjSize ↔ v = .badSize) ∧
    (v.exc = some .nonMatchingChecksum ↔ v = .badChecksum) := by
  cases v <;> simp [Verdict.exc]

/-- As found at the pinned commit the on-demand path compared case-sensitively:
    an upper-case checksum of a non-default algorithm was judged invalid (and the
    object deleted). Witness of defect D2. -/
theorem asFound_refuted :
    verdictAsFound [] (fun _ => "ab".toList) 1 .none (some "AB".toList) (some "sha224".toList)
      = .badChecksum ∧
    verdict [] (fun _ => "ab".toList) 1 .none (some "AB".toList) (some "sha224".toList) = .valid := by
  decide

example : sizeOk 11 (.int 11) ∧ checksumOk [("md5".toList, "ab".toList)] (fun _ => [])
    (some "AB".toList) (some "md5".toList) := by
  constructor
  · simp [sizeOk]
  · simp only [checksumOk, usedDigest, digestFor]; decide

section
open Abs
variable (cfg : Config) (o : Oracle)

/-! ### what the verdict does to the store (specification, then concrete program) -/

/-- `store_object(pid, …)`: an invalid verdict raises the mismatch error and the
    state is unchanged — no pid bound, no object added -/
theorem store_invalid_no_effect (a : Abs) (pid : SArg) (data : DataArg) (add cks ca : SArg) (sz : IArg)
    (p : Str) (add' cs' : Option Str) (t : Tok) (e : Exc)
    (hargs : storeArgs cfg pid data add cks ca sz = .ok (p, add', cs', t))
    (hv : (verdict (objMetaOf cfg o t add' cs').digests (fun x => o.dig x t) (o.size t) sz (sArgStr cks) cs').exc = some e) :
    step cfg o a (.storeObject pid data add cks ca sz) = (.error e, a) := by
  have hpid := storeArgs_pid cfg hargs
  subst hpid
  simp only [step, storeObj, hargs]
  have : (objMetaOf cfg o t add' cs').size = o.size t := rfl
  rw [this, hv]

/-- … a valid verdict never rejects: the only errors left are the two
    already-exists errors of the tagging, raised exactly when the pid is bound;
    and nothing that was stored is removed or altered -/
theorem store_valid_only_tag_rejects (a : Abs) (pid : SArg) (data : DataArg) (add cks ca : SArg) (sz : IArg)
    (p : Str) (add' cs' : Option Str) (t : Tok)
    (hargs : storeArgs cfg pid data add cks ca sz = .ok (p, add', cs', t))
    (hv : verdict (objMetaOf cfg o t add' cs').digests (fun x => o.dig x t) (o.size t) sz (sArgStr cks) cs' = .valid) :
    let r := step cfg o a (.storeObject pid data add cks ca sz)
    (a.bind.get p = none → r.1 = .ok (.objMeta (objMetaOf cfg o t add' cs'))) ∧
    (∀ c, a.bind.get p = some c → r.1 = .error .hashStoreRefsAlreadyExists ∨ r.1 = .error .pidRefsAlreadyExists) ∧
    (∀ c t', a.objs.get c = some t' → r.2.objs.get c = some t') := by
  have hpid := storeArgs_pid cfg hargs
  subst hpid
  simp only [step, storeObj, hargs]
  have hsz : (objMetaOf cfg o t add' cs').size = o.size t := rfl
  rw [hsz, hv]
  simp only [Verdict.exc]
  refine ⟨?_, ?_, ?_⟩
  · intro hb
    have hb' : (a.addObj (objMetaOf cfg o t add' cs').cid t).bind.get p = none := by rw [addObj_bind]; exact hb
    rw [tag_unbound _ hb']; rfl
  · intro c hb
    have hb' : (a.addObj (objMetaOf cfg o t add' cs').cid t).bind.get p = some c := by rw [addObj_bind]; exact hb
    rw [tag_bound _ hb']
    split
    · left; rfl
    · right; rfl
  · intro c t' hg
    show ((a.addObj (objMetaOf cfg o t add' cs').cid t).tag p (objMetaOf cfg o t add' cs').cid).2.objs.get c = some t'
    rw [tag_objs]
    exact addObj_keeps a _ _ _ _ hg

/-- `delete_if_invalid_object`: a valid verdict changes nothing and returns normally -/
theorem div_valid_no_effect (a : Abs) (m : ObjMeta) (c al a' d : Str) (sz : IArg)
    (hargs : divArgs (.str c) (.str al) sz = .ok (c, al)) (hcl : cleanAlgorithm al = .ok a')
    (hsz : sizeMismatch sz m.size = false) (hd : divDigest cfg o a m a' = .ok d) (heq : d = lower c) :
    step cfg o a (.deleteIfInvalid (some m) (.str c) (.str al) sz) = (.ok .unit, a) := by
  simp [step, divObj, hargs, hcl, hsz, hd, heq]

/-- … an invalid verdict (size, or else checksum) leaves every binding and
    document alone and every other object alone; if a pid references the object
    nothing at all changes and the mismatch error is raised; if nothing
    references it the object is gone afterwards, and the mismatch error is raised
    when it was there -/
theorem div_invalid_effect (a : Abs) (m : ObjMeta) (c al a' : Str) (sz : IArg) (e : Exc)
    (hargs : divArgs (.str c) (.str al) sz = .ok (c, al)) (hcl : cleanAlgorithm al = .ok a')
    (hbad : (sizeMismatch sz m.size = true ∧ e = .nonMatchingObjSize) ∨
      (sizeMismatch sz m.size = false ∧ e = .nonMatchingChecksum ∧
        ∃ d, divDigest cfg o a m a' = .ok d ∧ d ≠ lower c)) :
    let r := step cfg o a (.deleteIfInvalid (some m) (.str c) (.str al) sz)
    r.2.bind = a.bind ∧ r.2.docs = a.docs ∧ (∀ c', c' ≠ m.cid → r.2.objs.get c' = a.objs.get c') ∧
    (a.referenced m.cid = true → r = (.error e, a)) ∧
    (a.referenced m.cid = false → r.2.objs.get m.cid = none ∧
      (a.objs.contains m.cid = true → r.1 = .error e)) := by
  have key : step cfg o a (.deleteIfInvalid (some m) (.str c) (.str al) sz)
      = (orElse (a.deleteOnly m.cid).1 e, (a.deleteOnly m.cid).2) := by
    rcases hbad with ⟨h1, rfl⟩ | ⟨h1, rfl, d, h2, h3⟩
    · simp [step, divObj, hargs, hcl, h1]
    · simp [step, divObj, hargs, hcl, h1, h2, h3]
  simp only [key]
  refine ⟨deleteOnly_bind a _, deleteOnly_docs a _, ?_, ?_, ?_⟩
  · intro c' hne
    unfold deleteOnly
    split
    · rfl
    · split
      · simp only; rw [FMap.get_del_ne _ (Ne.symm hne)]
      · rfl
  · intro hr
    simp [deleteOnly, hr, orElse]
  · intro hr
    unfold deleteOnly
    simp only [hr, Bool.false_eq_true, if_false]
    split
    · rename_i hc
      exact ⟨by simp, fun _ => by simp [orElse]⟩
    · rename_i hc
      refine ⟨?_, fun h => absurd h hc⟩
      cases hg : a.objs.get m.cid with
      | none => rfl
      | some t => exact absurd ((FMap.contains_iff _ _).mpr ⟨t, hg⟩) hc

/-- the same on the concrete program text: from any directory that simulates `a`
    (in particular after any history from the empty store) the call returns what
    the specification returns and the directory again simulates the
    specification's state — which by `C05.sim_means` also says: no temporary
    file in any of the three temp areas, no binding and no list beyond the
    specification's. With the four theorems above this is the statement of the
    property for `store_object` and `delete_if_invalid_object` as executed. -/
theorem concrete_verdict_effect (call : Call) (st : Store) (log : List Eff) (a : Abs) (hs : Sim o st a)
    (ho : GoodOracle o) (hc : CidArgPlain call) :
    ∃ w', (call.prog cfg o).run (calm st log) = ((step cfg o a call).1, w') ∧ w'.lk = {} ∧
      Sim o w'.st (step cfg o a call).2 :=
  let ⟨w', h1, h2, _, h4⟩ := refines_step cfg o call st log a hs ho hc
  ⟨w', h1, h2, h4⟩

end

/-- **No invalid object is ever reported as stored, whatever races and faults.** Any number of threads
    running any calls, any world, every schedule and granularity, any fault plan: a
    `store_object(pid, data, checksum…, size)` that has returned normally had validation data the
    content meets — size equal to the true size, checksum equal (lower-cased) to the true digest
    under the named algorithm. -/
theorem stored_means_judged_valid_under_every_interleaving (calls : List Call) (w0 : World) (fuel : Nat)
    (sched : List Nat) (n : Nat) :
    let cf := (runSchedule fuel { w := w0, ts := calls.map (fun c => TState.fresh (c.prog cfg o)) } sched n).1
    ∀ (i : Nat) (v : Val) (p : Str) (data : DataArg) (add cks ca : SArg) (sz : IArg),
      cf.ts[i]? = some (.finished (.ok v)) → calls[i]? = some (.storeObject (.str p) data add cks ca sz) →
      JudgedValid cfg o data add cks ca sz := by
  intro cf i v p data add cks ca sz hi hc
  have h0 : SafeConf (fun _ => True) (fun _ _ => True) (fun _ => True) (fun i => validPost cfg o calls[i]?)
      { w := w0, ts := calls.map (fun c => TState.fresh (c.prog cfg o)) } := by
    refine ⟨trivial, ?_⟩
    intro j t hj
    simp only at hj
    rw [List.getElem?_map] at hj
    cases hcj : calls[j]? with
    | none => rw [hcj] at hj; cases hj
    | some c =>
      rw [hcj] at hj; cases hj
      have key : Prog.Safe (fun _ => True) (fun _ _ => True) (validPost cfg o (some c))
          (c.prog cfg o : Prog (Except Exc Val)) := by
        cases c with
        | storeObject pp d a c' ca' s =>
          cases pp with
          | str q => exact Prog.safe_of_allEvR _ (storeObject_valid cfg o q d a c' ca' s)
          | _ => exact Prog.safe_of_allEv _ (Prog.allEv_true _)
        | _ => exact Prog.safe_of_allEv _ (Prog.allEv_true _)
      show Prog.Safe _ _ (validPost cfg o calls[j]?) _
      rw [hcj]; exact key
  have hfin := safe_schedule (P := fun _ => True) (A := fun _ _ => True) (I := fun _ => True)
    (fun _ _ _ _ => trivial) (fun _ _ _ => trivial) _ fuel sched _ n h0
  have hq := safe_finished hfin i _ hi
  rw [hc] at hq
  exact hq


end HS.C06
