/-
  C07 — Concurrent object operations are linearizable.   (`_partial`)
  Proved:
   * the interleaving semantics extends the sequential one: a thread that runs
     alone computes exactly what the sequential interpreter computes, from any
     scheduling point on (so every sequential order is a schedule);
   * mutual exclusion on every class of identifiers, for any number of threads and
     every schedule (monitor model), and the lock discipline of every call (C08);
   * static discipline of every call under every interleaving (`Shape` holds for
     all answers, hence whatever other threads do): objects are published only at
     their digest, pid references / documents touched are only the call's own pid's.
  Refuted (the full statement is false of the model, which mirrors the code) — each
  witness is a concrete schedule checked by `decide` and replayed on the real
  threads by this check on every run:
   * K1 dedupe window,  K2 tag ∥ delete of one pid,  K5 store rejected while the pid
     is being deleted.
   * any number of concurrent `delete_object` calls on one pid are linearizable under
     every schedule (`deletes_of_one_pid_serialise`, `…_linearizable`): all their work
     lies between taking and releasing the pid in the object-pid class
     (`Proofs/Serial.lean`: serialisation of bracketed threads). So concurrent deleters
     never lose, duplicate or resurrect a reference among themselves.
   * likewise any number of concurrent `tag_object(p, ·)` calls on one pid, whatever
     the cids (`tags_of_one_pid_serialise`, `…_linearizable`).
   * any number of concurrent `store_object(p, ·)` calls on one pid are linearizable up to
     the documented refusal (`stores_of_one_pid_serialise_up_to_refusal`): each call is
     either refused as "already in progress" — the one extra outcome the property
     permits — or takes part in a sequential order with the others.
  Not proved: linearizability of mixes of store / tag / delete on shared identifiers
  outside the refuted windows (the common identifier of two taggers of one *cid* is
  an inner one; a store refused while the pid is being *deleted* is K5).
-/
import HSModel.Proofs.ConcLemmas
import HSModel.Proofs.LockLemmas
import HSModel.Proofs.Shape
import HSModel.Proofs.SerialSpec
import HSModel.Proofs.SerialTest
import HSModel.Proofs.StoreSpec
import HSModel.Props.C09
namespace HS.C07

/-- a thread running alone from any of its scheduling points computes the
    sequential result: every sequential order of the calls is one of the
    schedules of the interleaving semantics -/
theorem alone_is_sequential (fuel : Nat) (t : TState) (w : World) :
    (t.step fuel w).1.rest (t.step fuel w).2 = t.rest w := step_rest fuel t w

theorem fresh_is_run (fuel : Nat) (p : Prog (Except Exc Val)) (w : World) :
    (runToBoundary fuel p w).1.rest (runToBoundary fuel p w).2 = p.run w := runToBoundary_rest fuel p w

/-- mutual exclusion, any number of threads, every schedule -/
theorem mutual_exclusion (s : Sys) (r : Reach Sys.initial s) (i j : Nat) (l : Lock)
    (hi : l ∈ (s i).held) (hj : l ∈ (s j).held) : i = j :=
  (inv_reach _ _ inv_initial r).1.1 i j l hi hj

/-- whatever the other threads do (all answers), a call publishes objects only at
    their digest and touches only its own pid's reference and documents -/
theorem discipline_under_interleaving (cfg : Config) (o : Oracle) (c : Call) :
    (c.prog cfg o).AllEv (Shape cfg o c.pidStr) := call_shape cfg o c

/-! ### refutation witnesses -/

def oW : Oracle :=
  { hId := fun s => 'h' :: s, dig := fun _ t => if t = 1 then "cx".toList else "cy".toList, size := fun _ => 1 }
def cfgW : Config := { depth := 1, width := 1, alg := "sha256".toList, ns := "ns".toList }
def sched (s : String) : List Nat := s.toList.map fun c => c.toNat - 48
def p1 : SArg := .str "p1".toList
def p2 : SArg := .str "p2".toList
def resOf : TState → Option (Except Exc Val)
  | .finished r => some r
  | _ => none
/-- the thread returned an ObjectMetadata (the call reported success) -/
def storedOk : Option (Option (Except Exc Val)) → Bool
  | some (some (.ok (.objMeta _))) => true
  | _ => false

/-- start: p1 bound to content X -/
def wBound : World := ((storeObject cfgW oW p1 (.ok 1) .none .none .none .none).run { st := Store.empty }).2
/-- start: X stored without a pid -/
def wUnref : World := ((storeObject cfgW oW .none (.ok 1) .none .none .none .none).run { st := Store.empty }).2

/-- K1: T0 = store_object(p2, X), T1 = delete_object(p1) -/
def k1 : Conf × Nat := runSchedule 1000
  { w := wBound, ts := [.fresh (storeObject cfgW oW p2 (.ok 1) .none .none .none .none),
                        .fresh (deleteObject cfgW oW p1)] }
  (sched "0000001111111111111000000000000") 0

/-- both calls return success, yet p2 is bound to an object that no longer exists:
    no sequential order does that (store-then-delete keeps X for p2; delete-then-store
    stores X again) -/
theorem k1_dedupe_window :
    k1.2 = 31 ∧ k1.1.allFinished = true ∧
    (k1.1.ts.map resOf)[1]? = some (some (.ok .unit)) ∧
    storedOk (k1.1.ts.map resOf)[0]? = true ∧
    k1.1.w.st.pidRefs.get "hp2".toList = some "cx".toList ∧ k1.1.w.st.objs.get "cx".toList = none := by
  decide

/-- K2: T0 = tag_object(p1, cx), T1 = delete_object(p1) -/
def k2 : Conf × Nat := runSchedule 1000
  { w := wUnref, ts := [.fresh (tagObject cfgW oW p1 (.str "cx".toList)), .fresh (deleteObject cfgW oW p1)] }
  (sched "0000000000111110000000") 0

/-- the tag fails its own verification with PidRefsFileNotFound — sequentially a
    tag of an unbound pid succeeds, and a delete of an unbound pid is refused -/
theorem k2_tag_vs_delete :
    k2.2 = 22 ∧ k2.1.allFinished = true ∧
    (k2.1.ts.map resOf)[0]? = some (some (.error .pidRefsFileNotFound)) ∧
    (k2.1.ts.map resOf)[1]? = some (some (.ok .unit)) := by decide

/-- K5: T0 = delete_object(p1), T1 = store_object(p1, Y): rejected as "in progress" -/
def k5 : Conf × Nat := runSchedule 1000
  { w := wBound, ts := [.fresh (deleteObject cfgW oW p1),
                        .fresh (storeObject cfgW oW p1 (.ok 2) .none .none .none .none)] }
  (sched "001100000000000") 0

theorem k5_store_rejected_during_delete :
    k5.2 = 15 ∧ k5.1.allFinished = true ∧
    (k5.1.ts.map resOf)[1]? = some (some (.error .storeObjectInProgress)) ∧
    (k5.1.ts.map resOf)[0]? = some (some (.ok .unit)) := by decide

/-! ### deleters of one pid -/

/-- **Concurrent deletes of one pid serialise.** Any number of threads, each a
    `delete_object(p)` call (or one rejected for its argument); any start world in
    which `p` is not claimed in the object-pid class — any directory, any other
    identifiers held, any fault plan —; any schedule, any step budget. When all
    have returned, the world is exactly the one reached by running the calls whole,
    one after the other, in some order, and each call returned what it returns in
    that sequential run. -/
theorem deletes_of_one_pid_serialise (cfg : Config) (o : Oracle) (p : Str) (calls : List Call)
    (hc : ∀ x ∈ calls, DeletesPid p x) (w0 : World) (h0 : p ∉ w0.lk.objPid) (fuel : Nat) (sched : List Nat) :
    let progs := calls.map (Call.tprog cfg o)
    let fin := (runSchedule fuel { w := w0, ts := progs.map .fresh } sched 0).1
    fin.allFinished = true →
    ∃ order : List Nat, order.Nodup ∧ (∀ j, j ∈ order ↔ j < calls.length) ∧
      fin.w = (seqRun progs order w0).1 ∧
      ∀ (j : Nat) (t : TState), fin.ts[j]? = some t → ∃ v, t = TState.finished v ∧ (j, v) ∈ (seqRun progs order w0).2 := by
  exact serial_of_bracketed cfg o .objPid p calls
    (fun x hx => Prog.bracketedU_of_bracketed _ (deletesPid_bracketed cfg o p x (hc x hx))) w0 h0 fuel sched

/-- … and are linearizable with respect to the specification: from a directory
    that simulates `a`, nothing claimed, no fault plan, there is an order in which
    `Abs.step` returns exactly what the threads returned (one success and
    not-found for the others, when `p` was bound) and the final directory
    simulates its final state. -/
theorem deletes_of_one_pid_linearizable (cfg : Config) (o : Oracle) (p : Str) (calls : List Call)
    (hc : ∀ x ∈ calls, DeletesPid p x) (st : Store) (log : List Eff) (a : Abs) (hs : Sim o st a)
    (ho : GoodOracle o) (fuel : Nat) (sched : List Nat) :
    let fin := (runSchedule fuel { w := calm st log, ts := (calls.map (Call.tprog cfg o)).map .fresh } sched 0).1
    fin.allFinished = true →
    ∃ order : List Nat, order.Nodup ∧ (∀ j, j ∈ order ↔ j < calls.length) ∧
      Sim o fin.w.st (specHist cfg o (pick calls order) a).2 ∧ fin.w.lk = {} ∧
      ∀ (j : Nat) (t : TState), fin.ts[j]? = some t →
        ∃ v, t = TState.finished v ∧ (j, v) ∈ order.zip (specHist cfg o (pick calls order) a).1 :=
  linearizable_of_bracketed cfg o .objPid p calls
    (fun x hx => Prog.bracketedU_of_bracketed _ (deletesPid_bracketed cfg o p x (hc x hx)))
    (fun x hx => by
      have := hc x hx
      cases x <;> first | trivial | exact this.elim)
    st log a hs ho fuel sched

/-! ### taggers of one pid -/

/-- **Concurrent tags of one pid serialise.** Any number of threads, each a
    `tag_object(p, ·)` call with whatever cid (or one rejected for its arguments);
    any start world in which `p` is not claimed in the reference-pid class; any
    schedule, any step budget. When all have returned, the world is the one a
    sequential run in some order reaches, results included: exactly one tagging
    of an unbound pid succeeds, whichever cids compete. (`tag_object` releases two
    identifiers in its `finally`; the shape is read the way the lock discipline
    reads programs — an acquire continues when granted, a release of a held
    identifier succeeds — and the discipline of every call, `call_neutral`, is what
    makes that reading sound.) -/
theorem tags_of_one_pid_serialise (cfg : Config) (o : Oracle) (p : Str) (calls : List Call)
    (hc : ∀ x ∈ calls, TagsPid p x) (w0 : World) (h0 : p ∉ w0.lk.refPid) (fuel : Nat) (sched : List Nat) :
    let progs := calls.map (Call.tprog cfg o)
    let fin := (runSchedule fuel { w := w0, ts := progs.map .fresh } sched 0).1
    fin.allFinished = true →
    ∃ order : List Nat, order.Nodup ∧ (∀ j, j ∈ order ↔ j < calls.length) ∧
      fin.w = (seqRun progs order w0).1 ∧
      ∀ (j : Nat) (t : TState), fin.ts[j]? = some t → ∃ v, t = TState.finished v ∧ (j, v) ∈ (seqRun progs order w0).2 :=
  serial_of_bracketed cfg o .refPid p calls
    (fun x hx => tagsPid_bracketedU cfg o p x (hc x hx)) w0 h0 fuel sched

/-- … and are linearizable with respect to the specification (cids without a
    deletion-marker suffix, as the refinement theorem asks) -/
theorem tags_of_one_pid_linearizable (cfg : Config) (o : Oracle) (p : Str) (calls : List Call)
    (hc : ∀ x ∈ calls, TagsPid p x) (hplain : ∀ x ∈ calls, CidArgPlain x)
    (st : Store) (log : List Eff) (a : Abs) (hs : Sim o st a)
    (ho : GoodOracle o) (fuel : Nat) (sched : List Nat) :
    let fin := (runSchedule fuel { w := calm st log, ts := (calls.map (Call.tprog cfg o)).map .fresh } sched 0).1
    fin.allFinished = true →
    ∃ order : List Nat, order.Nodup ∧ (∀ j, j ∈ order ↔ j < calls.length) ∧
      Sim o fin.w.st (specHist cfg o (pick calls order) a).2 ∧ fin.w.lk = {} ∧
      ∀ (j : Nat) (t : TState), fin.ts[j]? = some t →
        ∃ v, t = TState.finished v ∧ (j, v) ∈ order.zip (specHist cfg o (pick calls order) a).1 :=
  linearizable_of_bracketed cfg o .refPid p calls
    (fun x hx => tagsPid_bracketedU cfg o p x (hc x hx)) hplain st log a hs ho fuel sched

/-! ### storers of one pid -/

/-- **Concurrent stores of one pid serialise, up to the documented refusal.** Any
    number of threads, each a `store_object(p, ·)` call with whatever data and
    validation arguments (or one rejected for its pid); any start world in which
    `p` is not claimed in the object-pid class; any schedule, any step budget.
    When all have returned there is an order of the calls and, per call, one of
    three programs — the call itself if it returned without a primitive
    (rejected arguments), the refusal `StoreObjectForPidAlreadyInProgress` if its
    in-progress test found the pid claimed, its continuation after the answer
    "not in progress" otherwise — such that the world is the one the sequential
    run of those programs in that order reaches, results included. By
    `accepted_store_is_the_whole_call` that continuation is the whole call
    whenever the pid is free, as it is between the calls of a sequential run. -/
theorem stores_of_one_pid_serialise_up_to_refusal (cfg : Config) (o : Oracle) (p : Str) (calls : List Call)
    (hc : ∀ x ∈ calls, StoresPid p x) (w0 : World) (h0 : p ∉ w0.lk.objPid) (fuel : Nat) (sched : List Nat) :
    let progs0 := calls.map (Call.tprog cfg o)
    let refusal : Except Exc Val := .error .storeObjectInProgress
    let fin := (runSchedule fuel { w := w0, ts := progs0.map .fresh } sched 0).1
    fin.allFinished = true →
    ∃ (progs' : List (Prog (Except Exc Val))) (order : List Nat),
      progs'.length = calls.length ∧
      (∀ (j : Nat) (q : Prog (Except Exc Val)), progs0[j]? = some q →
        progs'[j]? = some q ∨ ∃ k k2, TestShape p refusal Post0 q k k2 ∧
          (progs'[j]? = some (.ret refusal) ∨ progs'[j]? = some (k (.bool false)))) ∧
      order.Nodup ∧ (∀ j, j ∈ order ↔ j < calls.length) ∧
      fin.w = (seqRun progs' order w0).1 ∧
      ∀ (j : Nat) (t : TState), fin.ts[j]? = some t → ∃ v, t = TState.finished v ∧ (j, v) ∈ (seqRun progs' order w0).2 := by
  intro progs0 refusal fin hall
  have hb : ∀ q ∈ progs0, q.Tested p refusal Post0 := by
    intro q hq
    obtain ⟨x, hx, rfl⟩ := List.mem_map.mp hq
    exact storesPid_tested cfg o p x (hc x hx)
  obtain ⟨progs', order, h1, h2, h3, h4, h5, h6⟩ :=
    tested_schedule p refusal Post0 progs0 w0 hb (List.count_eq_zero.mpr h0) fuel sched hall
  exact ⟨progs', order, by rw [h1]; simp [progs0], h2, h3, fun j => by rw [h4 j]; simp [progs0], h5, h6⟩

/-- with the pid free, a store_object call runs exactly as its continuation after
    the answer "not in progress" -/
theorem accepted_store_is_the_whole_call (p : Str) (q : Prog (Except Exc Val)) (k k2 : Resp → Prog (Except Exc Val))
    (hs : TestShape p (.error .storeObjectInProgress) Post0 q k k2) (w : World) (hfree : p ∉ w.lk.objPid) :
    q.run w = (k (.bool false)).run w :=
  run_tested_free p _ Post0 q k k2 hs w hfree

open Classical in
/-- **Stores of one pid are linearizable up to the documented refusal** (against the
    specification). Started on a directory that simulates `a`, nothing claimed, no
    fault plan: when all calls have returned, each call was either refused as
    "already in progress" or belongs to an order in which `Abs.step`, run call after
    call from `a`, returns exactly what those calls returned; the final directory
    simulates the specification's final state and nothing is left claimed. -/
theorem stores_of_one_pid_linearizable_up_to_refusal (cfg : Config) (o : Oracle) (p : Str) (calls : List Call) (hc : ∀ x ∈ calls, StoresPid p x)
    (st : Store) (log : List Eff) (a : Abs) (hs : Sim o st a) (ho : GoodOracle o) (fuel : Nat) (sched : List Nat) :
    let fin := (runSchedule fuel { w := calm st log, ts := (calls.map (Call.tprog cfg o)).map .fresh } sched 0).1
    fin.allFinished = true →
    ∃ (order : List Nat) (refused : Nat → Prop), order.Nodup ∧
      (∀ j, j ∈ order ↔ j < calls.length ∧ ¬ refused j) ∧
      Sim o fin.w.st (specHist cfg o (pick calls order) a).2 ∧ fin.w.lk = {} ∧
      ∀ (j : Nat) (t : TState), fin.ts[j]? = some t → ∃ v, t = TState.finished v ∧
        ((refused j ∧ v = .error .storeObjectInProgress) ∨ (j, v) ∈ order.zip (specHist cfg o (pick calls order) a).1) := by
  intro fin hall
  let progs0 := calls.map (Call.tprog cfg o)
  let refusal : Except Exc Val := .error .storeObjectInProgress
  have hb : ∀ q ∈ progs0, q.Tested p refusal Post0 := by
    intro q hq
    obtain ⟨x, hx, rfl⟩ := List.mem_map.mp hq
    exact storesPid_tested cfg o p x (hc x hx)
  have h0 : (calm st log).cnt .objPid p = 0 := by unfold World.cnt calm calmL; rfl
  obtain ⟨progs', order0, hlen, hshape, hnd, hall0, hw, hres⟩ :=
    tested_schedule p refusal Post0 progs0 (calm st log) hb h0 fuel sched hall
  let refused : Nat → Prop := fun j => ∃ q k k2, progs0[j]? = some q ∧ TestShape p refusal Post0 q k k2 ∧
    progs'[j]? = some (.ret refusal)
  have hlen0 : progs0.length = calls.length := List.length_map _
  have hsh : ∀ (j : Nat) (x : Call), calls[j]? = some x →
      (refused j ∧ progs'[j]? = some (.ret (.error .storeObjectInProgress))) ∨
      (¬ refused j ∧ ∀ w : World, w.lk = {} → ∃ q, progs'[j]? = some q ∧ q.run w = (Call.tprog cfg o x).run w) := by
    intro j x hx
    have hq0 : progs0[j]? = some (Call.tprog cfg o x) := by
      show (calls.map (Call.tprog cfg o))[j]? = _
      rw [List.getElem?_map, hx]; rfl
    rcases hshape j _ hq0 with h1 | ⟨k, k2, hts, h1 | h1⟩
    · right
      refine ⟨?_, fun w _ => ⟨_, h1, rfl⟩⟩
      rintro ⟨q, k, k2, hq, hts, hp'⟩
      rw [hq0] at hq
      have e1 := Option.some.inj hq
      rw [h1] at hp'
      have e2 := Option.some.inj hp'
      rw [← e1] at hts
      rw [hts.1] at e2
      cases e2
    · exact Or.inl ⟨⟨_, k, k2, hq0, hts, h1⟩, h1⟩
    · right
      refine ⟨?_, fun w hwl => ⟨_, h1, ?_⟩⟩
      · rintro ⟨q, k', k2', hq, hts', hp'⟩
        rw [h1] at hp'
        have e := Option.some.inj hp'
        rw [hts.2.2.1] at e
        cases e
      · have hfree : p ∉ w.lk.objPid := by rw [hwl]; intro h; cases h
        exact (run_tested_free p refusal Post0 _ k k2 hts w hfree).symm
  have hl : ∀ j ∈ order0, j < calls.length := fun j hj => hlen0 ▸ (hall0 j).mp hj
  obtain ⟨f1, f2, f3⟩ := foldl_progs'_runHist cfg o p calls progs' refused hsh order0 hl (calm st log) rfl []
  let order := order0.filter (fun j => decide (¬ refused j))
  have hplain : ∀ x ∈ pick calls order, CidArgPlain x := by
    intro x hx
    simp only [pick, List.mem_filterMap] at hx
    obtain ⟨j, _, hj⟩ := hx
    have := hc x (List.mem_of_getElem? hj)
    cases x <;> first | trivial | exact this.elim
  obtain ⟨g1, g2, g3, _⟩ := refines_history_from cfg o (pick calls order) (calm st log) a rfl rfl hs ho hplain
  have hwfin : fin.w = (runHist cfg o (pick calls order) (calm st log)).2 := by
    rw [hw]; exact f1
  refine ⟨order, refused, hnd.sublist List.filter_sublist, ?_, ?_, ?_, ?_⟩
  · intro j
    simp only [order, List.mem_filter, decide_eq_true_eq]
    rw [hall0 j, hlen0]
  · rw [hwfin]; exact g2
  · rw [hwfin]; exact g3
  · intro j t ht
    obtain ⟨v, hv, hmem⟩ := hres j t ht
    refine ⟨v, hv, ?_⟩
    rcases f3 (j, v) hmem with h | h | h
    · cases h
    · exact Or.inl h
    · right; rw [← g1]; exact h

/-! the hypotheses are satisfiable: two deletes of a bound pid and one rejected
    call, an interleaved schedule after which all have returned — one delete
    succeeds, the other reports the pid unknown (a test on literals) -/
def callsD : List Call := [.deleteObject p1, .deleteObject p1, .deleteObject (.str "a b".toList)]
def serialDemo : Conf × Nat := runSchedule 1000
  { w := wBound, ts := (callsD.map (Call.tprog cfgW oW)).map .fresh } (sched "12000000000000011") 0
example : serialDemo.1.allFinished = true ∧ serialDemo.2 = 17 ∧
    serialDemo.1.ts.map resOf = [some (.ok .unit), some (.error .pidRefsDoesNotExist), some (.error .valueError)] := by
  decide
example : ∀ x ∈ callsD, DeletesPid "p1".toList x := by
  intro x hx
  simp only [callsD, List.mem_cons, List.not_mem_nil, or_false] at hx
  rcases hx with rfl | rfl | rfl
  · intro q h; have : checkString p1 = .ok "p1".toList := by decide
    rw [this] at h; cases h; rfl
  · intro q h; have : checkString p1 = .ok "p1".toList := by decide
    rw [this] at h; cases h; rfl
  · intro q h; have : checkString (.str "a b".toList) = .error .valueError := by decide
    rw [this] at h; cases h

/-! … and two tags of one pid with different cids and one rejected call: the first
    to take the pid succeeds, the other is told the pid is bound -/
def callsT : List Call := [.tagObject p1 (.str "cx".toList), .tagObject p1 (.str "cy".toList), .tagObject p1 .none]
def serialDemoT : Conf × Nat := runSchedule 1000
  { w := wUnref, ts := (callsT.map (Call.tprog cfgW oW)).map .fresh } (sched "120000000000000111111") 0
example : serialDemoT.1.allFinished = true ∧ serialDemoT.2 = 21 ∧
    serialDemoT.1.ts.map resOf = [some (.ok .unit), some (.error .pidRefsAlreadyExists), some (.error .valueError)] := by
  decide
example : ∀ x ∈ callsT, TagsPid "p1".toList x := by
  intro x hx
  have hp : checkString p1 = .ok "p1".toList := by decide
  simp only [callsT, List.mem_cons, List.not_mem_nil, or_false] at hx
  rcases hx with rfl | rfl | rfl <;> (intro q h; rw [hp] at h; cases h; rfl)

/-! … and two stores of one pid, the second asking while the first is at work, and one call
    with a rejected pid: stored, refused, rejected -/
def callsSt : List Call :=
  [.storeObject p1 (.ok 1) .none .none .none .none, .storeObject p1 (.ok 2) .none .none .none .none,
   .storeObject (.str "a b".toList) (.ok 1) .none .none .none .none]
def serialDemoSt : Conf × Nat := runSchedule 1000
  { w := { st := Store.empty }, ts := (callsSt.map (Call.tprog cfgW oW)).map .fresh } (sched "2000110000000000000000") 0
example : serialDemoSt.1.allFinished = true ∧ serialDemoSt.2 = 22 ∧
    storedOk (serialDemoSt.1.ts.map resOf)[0]? = true ∧
    (serialDemoSt.1.ts.map resOf)[1]? = some (some (.error .storeObjectInProgress)) ∧
    (serialDemoSt.1.ts.map resOf)[2]? = some (some (.error .valueError)) := by decide
example : ∀ x ∈ callsSt, StoresPid "p1".toList x := by
  intro x hx
  have hp : checkString p1 = .ok "p1".toList := by decide
  have hb : checkString (.str "a b".toList) = .error .valueError := by decide
  simp only [callsSt, List.mem_cons, List.not_mem_nil, or_false] at hx
  rcases hx with rfl | rfl | rfl
  · exact ⟨(by intro h; cases h), fun q h => by rw [hp] at h; cases h; rfl⟩
  · exact ⟨(by intro h; cases h), fun q h => by rw [hp] at h; cases h; rfl⟩
  · exact ⟨(by intro h; cases h), fun q h => by rw [hb] at h; cases h⟩

/-! ### what every interleaving guarantees even inside the known windows -/

/-- **No reader is ever served wrong bytes, whatever races.** Any number of threads running any
    calls (the races K1, K2, K5 included), every schedule, every granularity, any fault plan: a
    `retrieve_object` that returns normally returns content whose digest (up to deletion-marker
    suffixes, which no digest carries) is a cid that was in some pid reference at the start or
    that a `store_object` / `tag_object` of the set supplied; and at every step every object in
    the directory sits at the address of its own digest. The known races therefore end in a
    not-found / inconsistency error for the affected pid, never in foreign or partial content. -/
theorem no_reader_gets_wrong_bytes (cfg : Config) (o : Oracle) (calls : List Call) (w0 : World)
    (vs0 : List Str) (ts0 : List Tok) (hv : C09.ValuesFrom vs0 ts0 w0.st) (hob : C09.ObjsAddressed cfg o w0.st)
    (fuel : Nat) (sched : List Nat) (n : Nat) :
    let cf := (runSchedule fuel { w := w0, ts := calls.map (fun c => TState.fresh (c.prog cfg o)) } sched n).1
    C09.ObjsAddressed cfg o cf.w.st ∧
    ∀ (i : Nat) (r : Except Exc Val) (pid : SArg), cf.ts[i]? = some (.finished r) →
      calls[i]? = some (.retrieveObject pid) → ∀ t, r = .ok (.content t) →
        ∃ c ∈ vs0 ++ calls.flatMap (C09.cidsSupplied cfg o), ∃ k, c = o.dig cfg.alg t ++ C09.markers k := by
  intro cf
  have h := C09.whole_under_every_interleaving cfg o calls w0 vs0 ts0 hv hob fuel sched n
  exact ⟨h.2.1, fun i r pid hi hc => (h.2.2 i r hi).2 pid hc⟩

end HS.C07
