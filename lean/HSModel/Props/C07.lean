/-
  C07 — Concurrent object operations are linearizable.   (`_partial`)
  Proved:
   * the interleaving semantics extends the sequential one: a thread that runs
     alone computes exactly what the sequential interpreter computes, from any
     scheduling point on (so every sequential order is a schedule);
   * mutual exclusion on every class of identifiers, for any number of threads and
     every schedule (monitor model), and the lock discipline of every call (C08);
   * static discipline of every call under every interleaving (`Shape` holds for
     all answers, hence whatever other threads do): objects are published only at
     their digest, pid references / documents touched are only the call's own pid's.
  Refuted (the full statement is false of the model, which mirrors the code) — each
  witness is a concrete schedule checked by `decide` and replayed on the real
  threads by this check on every run:
   * K1 dedupe window,  K2 tag ∥ delete of one pid,  K5 store rejected while the pid
     is being deleted.
  Not proved: section-level linearizability of the lock-protected fragment.
-/
import HSModel.Proofs.ConcLemmas
import HSModel.Proofs.LockLemmas
import HSModel.Proofs.Shape
namespace HS.C07

/-- a thread running alone from any of its scheduling points computes the
    sequential result: every sequential order of the calls is one of the
    schedules of the interleaving semantics -/
theorem alone_is_sequential (fuel : Nat) (t : TState) (w : World) :
    (t.step fuel w).1.rest (t.step fuel w).2 = t.rest w := step_rest fuel t w

theorem fresh_is_run (fuel : Nat) (p : Prog (Except Exc Val)) (w : World) :
    (runToBoundary fuel p w).1.rest (runToBoundary fuel p w).2 = p.run w := runToBoundary_rest fuel p w

/-- mutual exclusion, any number of threads, every schedule -/
theorem mutual_exclusion (s : Sys) (r : Reach Sys.initial s) (i j : Nat) (l : Lock)
    (hi : l ∈ (s i).held) (hj : l ∈ (s j).held) : i = j :=
  (inv_reach _ _ inv_initial r).1.1 i j l hi hj

/-- whatever the other threads do (all answers), a call publishes objects only at
    their digest and touches only its own pid's reference and documents -/
theorem discipline_under_interleaving (cfg : Config) (o : Oracle) (c : Call) :
    (c.prog cfg o).AllEv (Shape cfg o c.pidStr) := call_shape cfg o c

/-! ### refutation witnesses -/

def oW : Oracle :=
  { hId := fun s => 'h' :: s, dig := fun _ t => if t = 1 then "cx".toList else "cy".toList, size := fun _ => 1 }
def cfgW : Config := { depth := 1, width := 1, alg := "sha256".toList, ns := "ns".toList }
def sched (s : String) : List Nat := s.toList.map fun c => c.toNat - 48
def p1 : SArg := .str "p1".toList
def p2 : SArg := .str "p2".toList
def resOf : TState → Option (Except Exc Val)
  | .finished r => some r
  | _ => none
/-- the thread returned an ObjectMetadata (the call reported success) -/
def storedOk : Option (Option (Except Exc Val)) → Bool
  | some (some (.ok (.objMeta _))) => true
  | _ => false

/-- start: p1 bound to content X -/
def wBound : World := ((storeObject cfgW oW p1 (.ok 1) .none .none .none .none).run { st := Store.empty }).2
/-- start: X stored without a pid -/
def wUnref : World := ((storeObject cfgW oW .none (.ok 1) .none .none .none .none).run { st := Store.empty }).2

/-- K1: T0 = store_object(p2, X), T1 = delete_object(p1) -/
def k1 : Conf × Nat := runSchedule 1000
  { w := wBound, ts := [.fresh (storeObject cfgW oW p2 (.ok 1) .none .none .none .none),
                        .fresh (deleteObject cfgW oW p1)] }
  (sched "0000001111111111111000000000000") 0

/-- both calls return success, yet p2 is bound to an object that no longer exists:
    no sequential order does that (store-then-delete keeps X for p2; delete-then-store
    stores X again) -/
theorem k1_dedupe_window :
    k1.2 = 31 ∧ k1.1.allFinished = true ∧
    (k1.1.ts.map resOf)[1]? = some (some (.ok .unit)) ∧
    storedOk (k1.1.ts.map resOf)[0]? = true ∧
    k1.1.w.st.pidRefs.get "hp2".toList = some "cx".toList ∧ k1.1.w.st.objs.get "cx".toList = none := by
  decide

/-- K2: T0 = tag_object(p1, cx), T1 = delete_object(p1) -/
def k2 : Conf × Nat := runSchedule 1000
  { w := wUnref, ts := [.fresh (tagObject cfgW oW p1 (.str "cx".toList)), .fresh (deleteObject cfgW oW p1)] }
  (sched "0000000000111110000000") 0

/-- the tag fails its own verification with PidRefsFileNotFound — sequentially a
    tag of an unbound pid succeeds, and a delete of an unbound pid is refused -/
theorem k2_tag_vs_delete :
    k2.2 = 22 ∧ k2.1.allFinished = true ∧
    (k2.1.ts.map resOf)[0]? = some (some (.error .pidRefsFileNotFound)) ∧
    (k2.1.ts.map resOf)[1]? = some (some (.ok .unit)) := by decide

/-- K5: T0 = delete_object(p1), T1 = store_object(p1, Y): rejected as "in progress" -/
def k5 : Conf × Nat := runSchedule 1000
  { w := wBound, ts := [.fresh (deleteObject cfgW oW p1),
                        .fresh (storeObject cfgW oW p1 (.ok 2) .none .none .none .none)] }
  (sched "001100000000000") 0

theorem k5_store_rejected_during_delete :
    k5.2 = 15 ∧ k5.1.allFinished = true ∧
    (k5.1.ts.map resOf)[1]? = some (some (.error .storeObjectInProgress)) ∧
    (k5.1.ts.map resOf)[0]? = some (some (.ok .unit)) := by decide

end HS.C07
