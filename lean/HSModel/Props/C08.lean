/-
  C08 — Calls always terminate and never leave an identifier locked.
  (1) every public call is lock-disciplined for every sequence of answers of the
      file system (hence under every injected fault): acquires in increasing
      class order objPid < refPid < cid < doc, releases only what it holds,
      returns holding nothing;
  (2) run on its own from free lock lists, a call is never blocked and leaves all
      four lists empty — under every fault plan — so a follow-up call on the
      same identifiers runs;
  (3) the monitor (wait-until-absent / append; remove / notify-one), for any
      number of threads and every schedule: mutual exclusion, no lost wake-up,
      and deadlock freedom: while some call has not returned, some thread can
      move; when all have returned nothing is held.
  (4) the same for the program texts themselves under the interleaving semantics
      of `Conc.lean` (any number of threads, any calls, any schedule, any fault
      plan): while some call has not returned some thread can take a step, and when
      all have returned the four lists are empty (`Proofs/ConcSafe.lean`).
  Programs are finite trees, so with (3)/(4) every schedule ends with all calls
  returned. Trusted: that `threading.Condition` / `multiprocessing.Condition`
  implement this monitor.
-/
import HSModel.Proofs.DiscRun
import HSModel.Proofs.LockLemmas
import HSModel.Proofs.SerialSpec
import HSModel.Proofs.ConcSafe
import HSModel.Proofs.Acq
namespace HS.C08
variable (cfg : Config) (o : Oracle)

/-- (1) lock discipline of every public call, for all arguments and all answers -/
theorem calls_disciplined (c : Call) : (c.prog cfg o).Neutral [] := call_neutral cfg o c

/-- (2) from free lists, under any fault plan: nothing is left locked -/
theorem no_identifier_left_locked (c : Call) (w : World) (hw : w.lk = {}) :
    ((c.prog cfg o).run w).2.lk = {} := by
  obtain ⟨h', hm, _, hp⟩ := Prog.disc_run _ _ [] w (call_neutral cfg o c)
    (by rw [hw]; exact matches_empty) List.Pairwise.nil
  subst hp
  exact matches_nil_iff _ hm

/-- … so any follow-up call, on the same or other identifiers, again runs to its
    end with everything released, and so on for whole histories -/
theorem histories_leave_nothing_locked (cs : List Call) (w : World) (hw : w.lk = {}) :
    (cs.foldl (fun w c => ((c.prog cfg o).run w).2) w).lk = {} := by
  induction cs generalizing w with
  | nil => exact hw
  | cons c r ih => exact ih _ (no_identifier_left_locked cfg o c w hw)

/-- a call is never answered "blocked" when it runs alone from free lists: the
    acquire of a disciplined program always finds the identifier absent. Stated
    through the lock lists: at every acquire of the run the identifier is free
    (this is what `Prog.disc_run` establishes step by step). -/
theorem alone_never_blocked (c : Call) (w : World) (hw : w.lk = {}) :
    ∃ h', Matches ((c.prog cfg o).run w).2.lk h' ∧ h' = [] := by
  obtain ⟨h', hm, _, hp⟩ := Prog.disc_run _ _ [] w (call_neutral cfg o c)
    (by rw [hw]; exact matches_empty) List.Pairwise.nil
  exact ⟨h', hm, hp⟩

/-! ### (3) the monitor, any number of threads, every schedule -/

/-- mutual exclusion: in every reachable state no identifier is held twice -/
theorem mutual_exclusion (s : Sys) (r : Reach Sys.initial s) : Mutex s :=
  (inv_reach _ _ inv_initial r).1

/-- no lost wake-up, in every reachable state -/
theorem no_lost_wakeup (s : Sys) (r : Reach Sys.initial s) : NoLost s :=
  (inv_reach _ _ inv_initial r).2.2.1

/-- deadlock freedom: in every reachable state, if some call has not returned,
    some thread can take a step -/
theorem deadlock_free (s : Sys) (r : Reach Sys.initial s) (h : ∃ i, (s i).st ≠ .done) :
    ∃ i, (s i).enabled := by
  have hinv := inv_reach _ _ inv_initial r
  apply Classical.byContradiction
  intro hno
  have hs : Stuck s := fun i hi => hno ⟨i, hi⟩
  obtain ⟨i, hi⟩ := h
  rcases stuck_cases s hs i with ⟨l, hl⟩ | hd
  · exact no_sleeper_when_stuck s hinv hs 3 i l hl (by omega)
  · exact hi hd

/-- at quiescence every identifier is free -/
theorem all_returned_all_free (s : Sys) (r : Reach Sys.initial s) (h : ∀ i, (s i).st = .done) (l : Lock) :
    ¬ s.holds l := by
  rintro ⟨i, hi⟩
  have := (inv_reach _ _ inv_initial r).2.2.2 i (h i)
  rw [this] at hi; cases hi

/-- the order of classes the calls obey -/
theorem class_order : LockClass.objPid.rank < LockClass.refPid.rank ∧
    LockClass.refPid.rank < LockClass.cid.rank ∧ LockClass.cid.rank < LockClass.doc.rank := by
  decide

/-- non-vacuity: a reachable state with a sleeper exists (thread 1 waits for the
    identifier thread 0 holds) -/
example : ∃ s, Reach Sys.initial s ∧ ∃ l, (s 1).st = .asleep l := by
  let l : Lock := ⟨.cid, []⟩
  let s1 := upd Sys.initial 0 { Sys.initial 0 with st := .testing l }
  let s2 := upd s1 0 { held := (s1 0).held ++ [l], st := .running }
  let s3 := upd s2 1 { s2 1 with st := .testing l }
  let s4 := upd s3 1 { s3 1 with st := .asleep l }
  refine ⟨s4, ?_, l, by simp [s4]⟩
  have r1 : Reach Sys.initial s1 := .step _ _ _ (.refl _) (.request _ 0 l rfl (by intro h hh; cases hh))
  have r2 : Reach Sys.initial s2 := .step _ _ _ r1 (.take s1 0 l (by simp [s1]) (by
    rintro ⟨i, hi⟩
    by_cases e : i = 0
    · subst e; simp [s1, Sys.initial] at hi
    · simp [s1, upd, e, Sys.initial] at hi))
  have r3 : Reach Sys.initial s3 := .step _ _ _ r2 (.request s2 1 l (by simp [s2, s1, upd, Sys.initial])
    (by intro h hh; simp [s2, s1, upd, Sys.initial] at hh))
  exact .step _ _ _ r3 (.sleep s3 1 l (by simp [s3]) ⟨0, by simp [s3, s2, upd]⟩)

/-! ### (4) the same on the program texts, under the interleaving semantics -/

/-- **No deadlock under any schedule.** Any number of threads, each running any
    public call with any arguments, started on any directory with free lock
    lists and under any fault plan; any schedule of the interleaving semantics
    of `Conc.lean`, any step budget. In the configuration reached, if some call
    has not returned then some thread can take a step. (The invariant carried
    through `runSchedule`: each thread's remaining program is lock-disciplined
    from its own account of what it holds, the accounts are in the world's
    lists, pairwise disjoint, and together cover the lists —
    `Proofs/ConcSafe.lean`.) -/
theorem no_deadlock_under_any_schedule (calls : List Call) (w0 : World) (h0 : w0.lk = {}) (fuel : Nat)
    (sched : List Nat) :
    let fin := (runSchedule fuel { w := w0, ts := (calls.map (Call.tprog cfg o)).map .fresh } sched 0).1
    fin.allFinished = false → fin.anyEnabled = true := by
  intro fin hnf
  have hd : ∀ p ∈ calls.map (Call.tprog cfg o), p.Disc Post0 [] := by
    intro p hp
    obtain ⟨x, _, rfl⟩ := List.mem_map.mp hp
    exact call_neutral cfg o x
  obtain ⟨hs, g⟩ := ginv_schedule fuel sched _ 0 _ (ginv_initial _ w0 h0 hd)
  exact ginv_no_deadlock g hnf

/-- … and when all calls have returned, all four lock lists are empty again:
    every identifier that was involved can be operated on without blocking -/
theorem all_returned_nothing_locked_under_any_schedule (calls : List Call) (w0 : World) (h0 : w0.lk = {})
    (fuel : Nat) (sched : List Nat) :
    let fin := (runSchedule fuel { w := w0, ts := (calls.map (Call.tprog cfg o)).map .fresh } sched 0).1
    fin.allFinished = true → fin.w.lk = {} := by
  intro fin hf
  have hd : ∀ p ∈ calls.map (Call.tprog cfg o), p.Disc Post0 [] := by
    intro p hp
    obtain ⟨x, _, rfl⟩ := List.mem_map.mp hp
    exact call_neutral cfg o x
  obtain ⟨hs, g⟩ := ginv_schedule fuel sched _ 0 _ (ginv_initial _ w0 h0 hd)
  exact ginv_all_finished_free g hf

/-! ### the claims of the model's calls are the claims of the source's methods -/

/-- every call of the model, whatever the file system answers, claims and releases identifiers of
    its classes only (`classesOf`) -/
theorem calls_claim_only_their_classes (c : Call) : (c.prog cfg o).AllEv (AcqIn (classesOf c)) :=
  call_acq cfg o c

/-- `classesOf` and `apiName` look at the kind of a call only; the lists the source's API methods may
    claim are these classes: `Tables.source_claims_are_model_claims` -/
theorem call_kind_only (c : Call) : ∃ r ∈ reps, apiName r = apiName c ∧ classesOf r = classesOf c := kind_only c

end HS.C08
