/-
  C09 — Permanent files are never observable half-written.
  (a) static discipline: whatever the file system answers, a call publishes an
      object only at the address of its own digest (`Shape`, proved for every
      call in Proofs/Shape.lean);
  (b) the invariant "every object key is the digest of the content it holds
      (possibly with deletion-marker suffixes)" is preserved by every single
      effect of that discipline — hence holds in the final state, at every crash
      prefix, and in every intermediate state of every call;
  (c) objects, metadata documents and pid references change value only by one
      whole-file step (publish / retire / remove): the model has no effect that
      writes them in place, and the correspondence run flags any in-place write
      of the real code;
  (d) whatever the file system answers, a call writes into a pid reference only
      its own cid and into a document only the data it was given (`Proofs/Whole.lean`),
      so at every instant every pid reference holds one whole cid some store / tag
      call supplied and every document one whole version some `store_metadata`
      call supplied.
-/
import HSModel.Proofs.Shape
import HSModel.Proofs.RunInv
import HSModel.Proofs.AbsLemmas
import HSModel.Proofs.Whole
import HSModel.Proofs.Reader
namespace HS.C09
variable (cfg : Config) (o : Oracle)

/-- `k` deletion-marker suffixes -/
def markers : Nat → Str
  | 0 => []
  | k + 1 => markers k ++ deleteSuffix

/-- every object key is the digest of the content stored there (a retired
    object keeps its content under `<digest>_delete`) -/
def ObjsAddressed (s : Store) : Prop :=
  ∀ c t, s.objs.get c = some t → ∃ k, c = o.dig cfg.alg t ++ markers k

theorem objs_step (s s' : Store) (x : Eff) (hx : PubAtDigest cfg o (.eff x))
    (ha : s.apply x = some s') (hs : ObjsAddressed cfg o s) : ObjsAddressed cfg o s' := by
  cases x with
  | publishObj c t =>
    simp only [Store.apply] at ha
    split at ha
    · cases ha
    · cases ha
      intro c' t' h
      simp only at h
      by_cases e : c = c'
      · subst e
        rw [FMap.get_set_self] at h
        cases h
        have hx' : c = o.dig cfg.alg t := hx
        exact ⟨0, by simp [markers, hx']⟩
      · rw [FMap.get_set_ne _ _ e] at h; exact hs c' t' h
  | retire l =>
    cases l with
    | obj c =>
      simp only [Store.apply, Store.retire] at ha
      cases hg : s.objs.get c with
      | none => simp [hg] at ha
      | some v =>
        simp only [hg, Option.map_some, Option.some.injEq] at ha
        subst ha
        intro c' t' h
        simp only at h
        by_cases e : c ++ deleteSuffix = c'
        · subst e
          rw [FMap.get_set_self] at h
          cases h
          obtain ⟨k, hk⟩ := hs c v hg
          exact ⟨k + 1, by rw [hk]; simp [markers, List.append_assoc]⟩
        · rw [FMap.get_set_ne _ _ e] at h
          exact hs c' t' (FMap.get_del_some h)
    | pidRef k =>
      simp only [Store.apply, Store.retire] at ha
      cases hg : s.pidRefs.get k <;> simp [hg] at ha
      subst ha; exact hs
    | cidRef c =>
      simp only [Store.apply, Store.retire] at ha
      cases hg : s.cidRefs.get c <;> simp [hg] at ha
      subst ha; exact hs
    | mdoc d n =>
      simp only [Store.apply, Store.retire] at ha
      cases hg : s.mdocs.get (d, n) <;> simp [hg] at ha
      subst ha; exact hs
  | remove l =>
    cases l with
    | obj c =>
      simp only [Store.apply, Store.remove] at ha
      split at ha
      · cases ha
        intro c' t' h
        exact hs c' t' (FMap.get_del_some h)
      · cases ha
    | pidRef k =>
      simp only [Store.apply, Store.remove] at ha
      split at ha <;> cases ha
      exact hs
    | cidRef c =>
      simp only [Store.apply, Store.remove] at ha
      split at ha <;> cases ha
      exact hs
    | mdoc d n =>
      simp only [Store.apply, Store.remove] at ha
      split at ha <;> cases ha
      exact hs
  | mkdirs a k => simp only [Store.apply] at ha; cases ha; exact hs
  | mkTmp a =>
    simp only [Store.apply] at ha; cases ha
    cases a <;> exact hs
  | removeTmp a =>
    simp only [Store.apply] at ha
    split at ha
    · cases ha
    · cases ha; cases a <;> exact hs
  | publishDoc d n t =>
    simp only [Store.apply] at ha
    split at ha <;> cases ha
    exact hs
  | publishPidRef k t =>
    simp only [Store.apply] at ha
    split at ha <;> cases ha
    exact hs
  | publishCidRef c t =>
    simp only [Store.apply] at ha
    split at ha <;> cases ha
    exact hs
  | appendCid c t =>
    simp only [Store.apply] at ha
    cases hg : s.cidRefs.get c <;> simp [hg] at ha
    subst ha; exact hs
  | rewriteCid c t =>
    simp only [Store.apply] at ha
    cases hg : s.cidRefs.get c <;> simp [hg] at ha
    subst ha; exact hs
  | truncateCid c n =>
    simp only [Store.apply] at ha
    cases hg : s.cidRefs.get c <;> simp [hg] at ha
    subst ha; exact hs

theorem preserved (p : Option Str) :
    Prog.Preserved (Shape cfg o p) (fun w => ObjsAddressed cfg o w.st) :=
  preserved_of_store (fun s x s' hx ha hs => objs_step cfg o s s' x (pubAtDigest_of_shape cfg o p _ hx) ha hs)

/-- after any call, from any state in which objects are well addressed — and
    under any fault plan the world carries — objects are well addressed -/
theorem objects_well_addressed_after (c : Call) (w : World) (h : ObjsAddressed cfg o w.st) :
    ObjsAddressed cfg o ((c.prog cfg o).run w).2.st :=
  Prog.run_inv _ (call_shape cfg o c) (preserved cfg o _) w h

/-- … at every point at which the process may die inside the call … -/
theorem objects_well_addressed_at_every_crash_point (c : Call) (n : Nat) (w : World)
    (h : ObjsAddressed cfg o w.st) :
    ObjsAddressed cfg o (Prog.crashAt n (c.prog cfg o) w).2.st :=
  Prog.crashAt_inv _ (call_shape cfg o c) (preserved cfg o _) n w h

/-- … and in every intermediate state a concurrent reader can observe -/
theorem objects_well_addressed_at_every_instant (c : Call) (w : World)
    (h : ObjsAddressed cfg o w.st) :
    ∀ s ∈ (Prog.runSnap (c.prog cfg o) w []).2.2, ObjsAddressed cfg o s :=
  Prog.runSnap_inv (J := ObjsAddressed cfg o) _ (call_shape cfg o c) (preserved cfg o _)
    (fun _ hw => hw) w h [] (by intro s hs; cases hs)

/-- over whole histories: start from the empty store, run any calls -/
theorem objects_well_addressed_history (cs : List Call) (w : World) (h : ObjsAddressed cfg o w.st) :
    ObjsAddressed cfg o (cs.foldl (fun w c => ((c.prog cfg o).run w).2) w).st := by
  induction cs generalizing w with
  | nil => exact h
  | cons c r ih => exact ih _ (objects_well_addressed_after cfg o c w h)

/-- objects, documents and pid references change only by whole-file steps: if an
    effect changes the value at a key of one of these maps, the effect is a
    publish, a retire or a remove (never an append / rewrite / truncate, which
    exist for cid reference lists only) -/
theorem permanent_entries_change_atomically (s s' : Store) (x : Eff) (ha : s.apply x = some s') :
    (s'.objs = s.objs ∧ s'.mdocs = s.mdocs ∧ s'.pidRefs = s.pidRefs) ∨
    (∃ c t, x = .publishObj c t) ∨ (∃ d n t, x = .publishDoc d n t) ∨ (∃ k t, x = .publishPidRef k t) ∨
    (∃ l, x = .retire l) ∨ (∃ l, x = .remove l) := by
  cases x with
  | publishObj c t => right; left; exact ⟨c, t, rfl⟩
  | publishDoc d n t => right; right; left; exact ⟨d, n, t, rfl⟩
  | publishPidRef k t => right; right; right; left; exact ⟨k, t, rfl⟩
  | retire l => right; right; right; right; left; exact ⟨l, rfl⟩
  | remove l => right; right; right; right; right; exact ⟨l, rfl⟩
  | mkdirs a k => left; simp only [Store.apply] at ha; cases ha; exact ⟨rfl, rfl, rfl⟩
  | mkTmp a => left; simp only [Store.apply] at ha; cases ha; cases a <;> exact ⟨rfl, rfl, rfl⟩
  | removeTmp a =>
    left; simp only [Store.apply] at ha
    split at ha
    · cases ha
    · cases ha; cases a <;> exact ⟨rfl, rfl, rfl⟩
  | publishCidRef c t =>
    left; simp only [Store.apply] at ha
    split at ha <;> cases ha
    exact ⟨rfl, rfl, rfl⟩
  | appendCid c t =>
    left; simp only [Store.apply] at ha
    cases hg : s.cidRefs.get c <;> simp [hg] at ha
    subst ha; exact ⟨rfl, rfl, rfl⟩
  | rewriteCid c t =>
    left; simp only [Store.apply] at ha
    cases hg : s.cidRefs.get c <;> simp [hg] at ha
    subst ha; exact ⟨rfl, rfl, rfl⟩
  | truncateCid c n =>
    left; simp only [Store.apply] at ha
    cases hg : s.cidRefs.get c <;> simp [hg] at ha
    subst ha; exact ⟨rfl, rfl, rfl⟩

/-- non-vacuity: the empty store satisfies the invariant, so every reachable
    store does -/
theorem empty_ok : ObjsAddressed cfg o Store.empty := by
  intro c t h
  simp [Store.empty] at h

/-! ### pid references and documents hold whole supplied values -/

/-- **Pid references and documents are whole at every instant.** During any
    call, under any fault plan, in every intermediate state a concurrent reader
    or a post-mortem can observe: each pid reference holds a value it held
    before the call or the call's own cid, each metadata document a version that
    was there before or the one this `store_metadata` supplied — never anything
    else (in particular nothing partial: a value appears by one publish). -/
theorem refs_and_docs_whole_at_every_instant (c : Call) (w : World) (vs : List Str) (ts : List Tok)
    (h : ValuesFrom vs ts w.st) :
    ∀ s ∈ (Prog.runSnap (c.prog cfg o) w []).2.2,
      ValuesFrom (vs ++ cidsSupplied cfg o c) (ts ++ docsSupplied c) s :=
  Prog.runSnap_inv (J := ValuesFrom (vs ++ cidsSupplied cfg o c) (ts ++ docsSupplied c)) _
    (call_supplies cfg o vs ts c) (values_preserved _ _) (fun _ hw => hw) w
    (valuesFrom_mono h (fun _ hv => List.mem_append_left _ hv) (fun _ ht => List.mem_append_left _ ht))
    [] (by intro s hs; cases hs)

/-- … at every point at which the process may die inside the call … -/
theorem refs_and_docs_whole_at_every_crash_point (c : Call) (n : Nat) (w : World) (vs : List Str) (ts : List Tok)
    (h : ValuesFrom vs ts w.st) :
    ValuesFrom (vs ++ cidsSupplied cfg o c) (ts ++ docsSupplied c) (Prog.crashAt n (c.prog cfg o) w).2.st :=
  Prog.crashAt_inv _ (call_supplies cfg o vs ts c) (values_preserved _ _) n w
    (valuesFrom_mono h (fun _ hv => List.mem_append_left _ hv) (fun _ ht => List.mem_append_left _ ht))

/-- … and after it -/
theorem refs_and_docs_whole_after (c : Call) (w : World) (vs : List Str) (ts : List Tok)
    (h : ValuesFrom vs ts w.st) :
    ValuesFrom (vs ++ cidsSupplied cfg o c) (ts ++ docsSupplied c) ((c.prog cfg o).run w).2.st :=
  Prog.run_inv _ (call_supplies cfg o vs ts c) (values_preserved _ _) w
    (valuesFrom_mono h (fun _ hv => List.mem_append_left _ hv) (fun _ ht => List.mem_append_left _ ht))

/-- over whole histories from the empty store: every pid reference holds the cid
    of one of the store / tag calls made, every document a version one of the
    `store_metadata` calls supplied -/
theorem refs_and_docs_whole_history (cs : List Call) (w : World) (vs : List Str) (ts : List Tok)
    (h : ValuesFrom vs ts w.st) :
    ValuesFrom (vs ++ cs.flatMap (cidsSupplied cfg o)) (ts ++ cs.flatMap docsSupplied)
      (cs.foldl (fun w c => ((c.prog cfg o).run w).2) w).st := by
  induction cs generalizing w vs ts with
  | nil => simpa using h
  | cons c r ih =>
    have := ih _ _ _ (refs_and_docs_whole_after cfg o c w vs ts h)
    simpa [List.flatMap_cons, List.append_assoc] using this

theorem values_empty : ValuesFrom [] [] Store.empty := by
  constructor
  · intro k v h; simp [Store.empty] at h
  · intro d n t h; simp [Store.empty] at h


/-! ### the same under every interleaving, and what readers get -/

/-- the content an object key may hold: the key is its digest (possibly with deletion markers) -/
def AtDigest (c : Str) (t : Tok) : Prop := ∃ k, c = o.dig cfg.alg t ++ markers k

/-- a world whose pid references and documents hold supplied values and whose objects sit at their
    digest answers reads accordingly -/
theorem good_answers (vs : List Str) (ts : List Tok) :
    Answers (fun w => ValuesFrom vs ts w.st ∧ ObjsAddressed cfg o w.st) (GoodAnswers vs ts (AtDigest cfg o)) := by
  intro w e hw
  cases e with
  | readDoc d n =>
    simp only [respond]
    split
    · trivial
    · simp only [respondCore]
      cases hg : (faultStep w (Ev.readDoc d n)).2.st.mdocs.get (d, n) with
      | none => trivial
      | some t => exact hw.1.2 d n t (by rw [faultStep_st] at hg; exact hg)
  | readObj c =>
    simp only [respond]
    split
    · trivial
    · simp only [respondCore]
      cases hg : (faultStep w (Ev.readObj c)).2.st.objs.get c with
      | none => trivial
      | some t => exact hw.2 c t (by rw [faultStep_st] at hg; exact hg)
  | readRef l =>
    cases l with
    | pidRef k =>
      simp only [respond]
      split
      · trivial
      · simp only [respondCore]
        cases hg : (faultStep w (Ev.readRef (.pidRef k))).2.st.pidRefs.get k with
        | none => trivial
        | some t => exact hw.1.1 k t (by rw [faultStep_st] at hg; exact hg)
    | _ => simp only [GoodAnswers]
  | _ => simp only [GoodAnswers]

/-- what a call of a given kind may return under interleaving -/
def readerPost (vs : List Str) (ts : List Tok) : Option Call → Except Exc Val → Prop
  | some (.retrieveMetadata _ _) => ReadsFrom ts
  | some (.retrieveObject _) => ReadsObj vs (AtDigest cfg o)
  | _ => fun _ => True

/-- **Whole at every instant under every interleaving.** Any number of threads running any calls
    with any arguments, from any world (any directory whose pid references hold values from `vs0`,
    whose documents hold versions from `ts0` and whose objects sit at their digest; any lock lists;
    any fault plan), under every schedule and at every granularity of interleaving (`fuel = 1`: one
    primitive per step): after every step every pid reference holds a whole cid that was there or
    that one of the calls supplied, every document a whole version that was there or that one of the
    `store_metadata` calls supplied, every object sits at its digest; and a reader that has returned
    normally got — `retrieve_metadata`: one such whole version; `retrieve_object`: content whose
    digest is a cid one of those pid references held. -/
theorem whole_under_every_interleaving (calls : List Call) (w0 : World) (vs0 : List Str) (ts0 : List Tok)
    (hv : ValuesFrom vs0 ts0 w0.st) (hob : ObjsAddressed cfg o w0.st) (fuel : Nat) (sched : List Nat) (n : Nat) :
    let cf := (runSchedule fuel { w := w0, ts := calls.map (fun c => TState.fresh (c.prog cfg o)) } sched n).1
    let vs := vs0 ++ calls.flatMap (cidsSupplied cfg o)
    let ts := ts0 ++ calls.flatMap docsSupplied
    ValuesFrom vs ts cf.w.st ∧ ObjsAddressed cfg o cf.w.st ∧
    ∀ (i : Nat) (r : Except Exc Val), cf.ts[i]? = some (.finished r) →
      (∀ pid f, calls[i]? = some (.retrieveMetadata pid f) → ∀ t, r = .ok (.content t) → t ∈ ts) ∧
      (∀ pid, calls[i]? = some (.retrieveObject pid) → ∀ t, r = .ok (.content t) →
        ∃ c ∈ vs, ∃ k, c = o.dig cfg.alg t ++ markers k) := by
  intro cf vs ts
  let P : Ev → Prop := fun e => Supplies vs ts e ∧ PubAtDigest cfg o e
  let I : World → Prop := fun w => ValuesFrom vs ts w.st ∧ ObjsAddressed cfg o w.st
  have hpres : Prog.Preserved P I :=
    preserved_of_store (J := fun s => ValuesFrom vs ts s ∧ ObjsAddressed cfg o s)
      (fun s x s' hx ha hs => ⟨values_step vs ts s s' x hx.1 ha hs.1, objs_step cfg o s s' x hx.2 ha hs.2⟩)
  have hP : ∀ e, NoEff e → P e := fun e he => ⟨supplies_of_noEff vs ts e he, pubAtDigest_of_noEff cfg o e he⟩
  have hall : ∀ c ∈ calls, (c.prog cfg o : Prog (Except Exc Val)).AllEv P := by
    intro c hc
    apply allEv_and
    · apply Prog.allEv_mono _ _ (call_supplies cfg o [] [] c)
      apply supplies_mono
      · intro v hv'
        simp only [List.nil_append] at hv'
        exact List.mem_append_right _ (List.mem_flatMap.mpr ⟨c, hc, hv'⟩)
      · intro t ht'
        simp only [List.nil_append] at ht'
        exact List.mem_append_right _ (List.mem_flatMap.mpr ⟨c, hc, ht'⟩)
    · exact Prog.allEv_mono _ (pubAtDigest_of_shape cfg o _) (call_shape cfg o c)
  have h0 : SafeConf P (GoodAnswers vs ts (AtDigest cfg o)) I (fun i => readerPost cfg o vs ts calls[i]?)
      { w := w0, ts := calls.map (fun c => TState.fresh (c.prog cfg o)) } := by
    refine ⟨⟨valuesFrom_mono hv (fun _ h => List.mem_append_left _ h) (fun _ h => List.mem_append_left _ h), hob⟩, ?_⟩
    · intro i p hp
      simp only at hp
      cases hc : calls[i]? with
      | none => rw [List.getElem?_map, hc] at hp; cases hp
      | some c =>
        rw [List.getElem?_map, hc] at hp
        cases hp
        have hmem : c ∈ calls := List.mem_of_getElem? hc
        have key : Prog.Safe P (GoodAnswers vs ts (AtDigest cfg o)) (readerPost cfg o vs ts (some c))
            (c.prog cfg o : Prog (Except Exc Val)) := by
          cases c with
          | retrieveMetadata pid f => exact retrieveMetadata_safe cfg o P hP vs ts _ pid f
          | retrieveObject pid => exact retrieveObject_safe cfg o P hP vs ts _ pid
          | _ => exact Prog.safe_of_allEv _ (hall _ hmem)
        show Prog.Safe P _ (readerPost cfg o vs ts calls[i]?) _
        rw [hc]; exact key
  have hfin := safe_schedule hpres (good_answers cfg o vs ts) _ fuel sched _ n h0
  refine ⟨hfin.1.1, hfin.1.2, ?_⟩
  intro i r hi
  have hq := safe_finished hfin i r hi
  constructor
  · intro pid f hc t ht
    rw [hc] at hq
    exact hq t ht
  · intro pid hc t ht
    rw [hc] at hq
    obtain ⟨c, hcv, k, hk⟩ := hq t ht
    exact ⟨c, hcv, k, hk⟩

/-- non-vacuity: from the empty store with a writer of a document and a reader of it, one
    primitive per step -/
example : ValuesFrom [] [] Store.empty ∧ ObjsAddressed cfg o Store.empty := ⟨values_empty, empty_ok cfg o⟩

end HS.C09
