/-
  C10 — A crash harms nothing else and never wedges the interrupted pid.
  Proved here (`_partial`, see the end of the file for what is not):
  for every call addressed to pid p, every other pid q whose hash differs from
  p's keeps its pid reference and all its metadata documents — in the final
  state, at every crash point, under every fault plan; calls without a pid
  touch no pid reference and no document at all. Objects stay well addressed at
  every crash point (C09). For the five calls of the property's quantifier, run
  sequentially from a store whose indexes agree, every other pid also keeps its
  place on its (possibly shared) cid reference list and its object at every
  crash point (`others_fully_kept_at_every_crash_point`), and the interrupted
  pid is never wedged: from the store a crash leaves at any point,
  `delete_object(pid)` returns normally or reports the pid unknown, then
  `store_object(pid, data)` returns normally, then `retrieve_object(pid)` returns
  the data (`never_wedged_after_a_crash`; this rests on `recover_any`, which holds
  from *any* store whose list texts are empty or newline-terminated — no
  consistency assumed; `…_with_validation`: the recovery store may carry any accepted
  validation arguments that the data meets). Not proved: the same under a fault plan
  that stays active during the recovery.
-/
import HSModel.Proofs.Shape
import HSModel.Proofs.RunInv
import HSModel.Proofs.AbsLemmas
import HSModel.Proofs.TrailStore
import HSModel.Proofs.TrailNl
import HSModel.Proofs.ConcInv
namespace HS.C10
variable (cfg : Config) (o : Oracle)

/-- the part of the store that belongs to the pid whose hash is `K` -/
def SameFor (K : Str) (s₀ s : Store) : Prop :=
  s.pidRefs.get K = s₀.pidRefs.get K ∧ ∀ n, s.mdocs.get (K, n) = s₀.mdocs.get (K, n)

/-- `K` is not the key of the call's pid, nor its deletion marker -/
def Foreign (p : Option Str) (K : Str) : Prop :=
  ∀ q, p = some q → K ≠ o.hId q ∧ K ≠ o.hId q ++ deleteSuffix

theorem frame_step (p : Option Str) (K : Str) (hK : Foreign o p K) (s₀ s s' : Store) (x : Eff)
    (hx : Shape cfg o p (.eff x)) (ha : s.apply x = some s') (hs : SameFor K s₀ s) : SameFor K s₀ s' := by
  obtain ⟨h1, h2⟩ := hs
  cases x with
  | publishPidRef k t =>
    obtain ⟨q, hq, hk⟩ := hx
    simp only [Store.apply] at ha
    split at ha
    · cases ha
    · cases ha
      refine ⟨?_, h2⟩
      simp only
      rw [FMap.get_set_ne _ _ (by rw [hk]; exact Ne.symm (hK q hq).1)]; exact h1
  | publishDoc d n t =>
    obtain ⟨q, hq, hd, _⟩ := hx
    simp only [Store.apply] at ha
    split at ha
    · cases ha
    · cases ha
      refine ⟨h1, fun m => ?_⟩
      simp only
      rw [FMap.get_set_ne _ _ (by intro e; exact (hK q hq).1 (by rw [← hd]; exact (Prod.mk.inj e).1.symm))]
      exact h2 m
  | retire l =>
    cases l with
    | pidRef k =>
      obtain ⟨q, hq, hk⟩ := hx
      simp only [Store.apply, Store.retire] at ha
      cases hg : s.pidRefs.get k with
      | none => simp [hg] at ha
      | some v =>
        simp only [hg, Option.map_some, Option.some.injEq] at ha
        subst ha
        refine ⟨?_, h2⟩
        simp only
        rw [FMap.get_set_ne _ _ (by rw [hk]; exact Ne.symm (hK q hq).2),
            FMap.get_del_ne _ (by rw [hk]; exact Ne.symm (hK q hq).1)]
        exact h1
    | mdoc d n =>
      obtain ⟨q, hq, hd⟩ := hx
      simp only [Store.apply, Store.retire] at ha
      cases hg : s.mdocs.get (d, n) with
      | none => simp [hg] at ha
      | some v =>
        simp only [hg, Option.map_some, Option.some.injEq] at ha
        subst ha
        refine ⟨h1, fun m => ?_⟩
        simp only
        have hne : ∀ x, (d, x) ≠ (K, m) := by
          intro x e; exact (hK q hq).1 (by rw [← hd]; exact (Prod.mk.inj e).1.symm)
        rw [FMap.get_set_ne _ _ (hne _), FMap.get_del_ne _ (hne _)]
        exact h2 m
    | obj c =>
      simp only [Store.apply, Store.retire] at ha
      cases hg : s.objs.get c <;> simp [hg] at ha
      subst ha; exact ⟨h1, h2⟩
    | cidRef c =>
      simp only [Store.apply, Store.retire] at ha
      cases hg : s.cidRefs.get c <;> simp [hg] at ha
      subst ha; exact ⟨h1, h2⟩
  | remove l =>
    cases l with
    | pidRef k =>
      obtain ⟨q, hq, hk⟩ := hx
      simp only [Store.apply, Store.remove] at ha
      split at ha
      · cases ha
        refine ⟨?_, h2⟩
        simp only
        rw [FMap.get_del_ne _ (by rw [hk]; exact Ne.symm (hK q hq).2)]; exact h1
      · cases ha
    | mdoc d n =>
      obtain ⟨q, hq, hd⟩ := hx
      simp only [Store.apply, Store.remove] at ha
      split at ha
      · cases ha
        refine ⟨h1, fun m => ?_⟩
        simp only
        rw [FMap.get_del_ne _ (by intro e; exact (hK q hq).1 (by rw [← hd]; exact (Prod.mk.inj e).1.symm))]
        exact h2 m
      · cases ha
    | obj c =>
      simp only [Store.apply, Store.remove] at ha
      split at ha <;> cases ha
      exact ⟨h1, h2⟩
    | cidRef c =>
      simp only [Store.apply, Store.remove] at ha
      split at ha <;> cases ha
      exact ⟨h1, h2⟩
  | mkdirs a k => simp only [Store.apply] at ha; cases ha; exact ⟨h1, h2⟩
  | mkTmp a => simp only [Store.apply] at ha; cases ha; cases a <;> exact ⟨h1, h2⟩
  | removeTmp a =>
    simp only [Store.apply] at ha
    split at ha
    · cases ha
    · cases ha; cases a <;> exact ⟨h1, h2⟩
  | publishObj c t =>
    simp only [Store.apply] at ha
    split at ha <;> cases ha
    exact ⟨h1, h2⟩
  | publishCidRef c t =>
    simp only [Store.apply] at ha
    split at ha <;> cases ha
    exact ⟨h1, h2⟩
  | appendCid c t =>
    simp only [Store.apply] at ha
    cases hg : s.cidRefs.get c <;> simp [hg] at ha
    subst ha; exact ⟨h1, h2⟩
  | rewriteCid c t =>
    simp only [Store.apply] at ha
    cases hg : s.cidRefs.get c <;> simp [hg] at ha
    subst ha; exact ⟨h1, h2⟩
  | truncateCid c n =>
    simp only [Store.apply] at ha
    cases hg : s.cidRefs.get c <;> simp [hg] at ha
    subst ha; exact ⟨h1, h2⟩

theorem frame_preserved (p : Option Str) (K : Str) (hK : Foreign o p K) (s₀ : Store) :
    Prog.Preserved (Shape cfg o p) (fun w => SameFor K s₀ w.st) :=
  preserved_of_store (fun s x s' hx ha hs => frame_step cfg o p K hK s₀ s s' x hx ha hs)

/-- two equally long hashes: one is never the other plus the marker suffix -/
theorem foreign_of_ne (p q : Str) (hne : o.hId q ≠ o.hId p) (hlen : (o.hId q).length = (o.hId p).length) :
    Foreign o (some p) (o.hId q) := by
  intro r hr
  cases hr
  refine ⟨hne, ?_⟩
  intro e
  have := congrArg List.length e
  simp [deleteSuffix] at this
  omega

/-- If the process dies at any point inside a call addressed to pid p (or the
    call runs to completion, or an injected fault strikes), every other pid q —
    distinct hash — has exactly the pid reference and the metadata documents it
    had before. -/
theorem other_pids_untouched_at_every_crash_point (c : Call) (p q : Str) (hc : c.pidStr = some p)
    (hne : o.hId q ≠ o.hId p) (hlen : (o.hId q).length = (o.hId p).length) (n : Nat) (w : World) :
    SameFor (o.hId q) w.st (Prog.crashAt n (c.prog cfg o) w).2.st := by
  have hs := call_shape cfg o c
  rw [hc] at hs
  exact Prog.crashAt_inv (I := fun w' => SameFor (o.hId q) w.st w'.st) _ hs
    (frame_preserved cfg o _ _ (foreign_of_ne o p q hne hlen) w.st) n w ⟨rfl, fun _ => rfl⟩

theorem other_pids_untouched_after (c : Call) (p q : Str) (hc : c.pidStr = some p)
    (hne : o.hId q ≠ o.hId p) (hlen : (o.hId q).length = (o.hId p).length) (w : World) :
    SameFor (o.hId q) w.st ((c.prog cfg o).run w).2.st := by
  have hs := call_shape cfg o c
  rw [hc] at hs
  exact Prog.run_inv (I := fun w' => SameFor (o.hId q) w.st w'.st) _ hs
    (frame_preserved cfg o _ _ (foreign_of_ne o p q hne hlen) w.st) w ⟨rfl, fun _ => rfl⟩

/-- calls that carry no pid (store without pid, delete_if_invalid_object) never
    touch any pid reference or metadata document, at any crash point -/
theorem pidless_calls_touch_no_pid (c : Call) (hc : c.pidStr = none) (K : Str) (n : Nat) (w : World) :
    SameFor K w.st (Prog.crashAt n (c.prog cfg o) w).2.st := by
  have hs := call_shape cfg o c
  rw [hc] at hs
  exact Prog.crashAt_inv (I := fun w' => SameFor K w.st w'.st) _ hs
    (frame_preserved cfg o _ _ (by intro q hq; cases hq) w.st) n w ⟨rfl, fun _ => rfl⟩

/-- **Other pids are untouched under every interleaving.** Any number of threads running any calls
    none of which is addressed to pid q (each call has no pid, or a pid whose hash differs from
    q's and has the same length), from any world (any fault plan, any lock lists), under every
    schedule and at every granularity of interleaving: after every step — hence also if the process
    dies there — q has exactly the pid reference and the metadata documents it had at the start. -/
theorem other_pids_untouched_under_every_interleaving (calls : List Call) (q : Str)
    (hc : ∀ c ∈ calls, Foreign o c.pidStr (o.hId q)) (w0 : World) (fuel : Nat) (sched : List Nat) (n : Nat) :
    SameFor (o.hId q) w0.st
      (runSchedule fuel { w := w0, ts := calls.map (fun c => TState.fresh (c.prog cfg o)) } sched n).1.w.st := by
  let P : Ev → Prop := fun e => ∃ p, Foreign o p (o.hId q) ∧ Shape cfg o p e
  have hpres : Prog.Preserved P (fun w => SameFor (o.hId q) w0.st w.st) := by
    intro w e hp hw
    obtain ⟨p, hK, hs⟩ := hp
    exact frame_preserved cfg o p _ hK w0.st w e hs hw
  have h0 : SafeConf P (fun _ _ => True) (fun w => SameFor (o.hId q) w0.st w.st) (fun _ _ => True)
      { w := w0, ts := calls.map (fun c => TState.fresh (c.prog cfg o)) } := by
    refine ⟨⟨rfl, fun _ => rfl⟩, ?_⟩
    intro i t hi
    simp only at hi
    rw [List.getElem?_map] at hi
    cases hci : calls[i]? with
    | none => rw [hci] at hi; cases hi
    | some c =>
      rw [hci] at hi; cases hi
      apply Prog.safe_of_allEv
      exact Prog.allEv_mono _ (fun e he => ⟨c.pidStr, hc c (List.mem_of_getElem? hci), he⟩) (call_shape cfg o c)
  exact (safe_schedule hpres (fun _ _ _ => trivial) _ fuel sched _ n h0).1

/-- the hypothesis in the usual form: every call has no pid or a pid with another hash -/
theorem foreign_of_calls (calls : List Call) (q : Str)
    (h : ∀ c ∈ calls, ∀ p, c.pidStr = some p → o.hId q ≠ o.hId p ∧ (o.hId q).length = (o.hId p).length) :
    ∀ c ∈ calls, Foreign o c.pidStr (o.hId q) := by
  intro c hc
  cases hp : c.pidStr with
  | none => intro r hr; cases hr
  | some p => exact foreign_of_ne o p q (h c hc p hp).1 (h c hc p hp).2

/-- the full statement of C10 also demands: (i) q stays a member of every shared
    cid reference list and its object stays in place at every crash point;
    (ii) from every crash state `delete_object p; store_object p d` succeeds.
    These are checked on the real code at every crash point by this property's
    correspondence run; for the model they are stated here and not proved. -/
def FullStatement : Prop :=
  ∀ (c : Call) (p : Str) (w : World) (n : Nat) (d : Tok), c.pidStr = some p →
    let w' := (Prog.crashAt n (c.prog cfg o) w).2
    let w'' := ((deleteObject cfg o (.str p)).run { w' with lk := {} }).2
    ∃ m, ((storeObject cfg o (.str p) (.ok d) .none .none .none .none).run w'').1 = .ok (.objMeta m)

example : Foreign { hId := fun s => s, dig := fun _ _ => [], size := fun _ => 0 } (some "ab".toList) "cd".toList := by
  intro q hq
  cases hq
  constructor <;> decide

/-- **every crash point, shared lists included**: for store_object, tag_object,
    delete_object, store_metadata and delete_metadata with any arguments, run from
    a store whose two indexes agree, the store a crash leaves at *any* point
    still has every other pid's reference, still lists that pid in its cid's
    reference list (also when the list is shared with the interrupted pid and is
    being rewritten), and still has the object it names -/
theorem others_fully_kept_at_every_crash_point (c : Call) (st : Store) (log : List Eff) (q : Str) (n : Nat)
    (h : RefsExact o st) (ho : GoodOracle o) (hq : ∀ p, c.pidStr = some p → p ≠ q)
    (hc : (∃ a b d e f g, c = .storeObject a b d e f g) ∨ (∃ a b, c = .tagObject a b) ∨ (∃ a, c = .deleteObject a) ∨
          (∃ a b d, c = .storeMetadata a b d) ∨ (∃ a b, c = .deleteMetadata a b)) :
    OtherKept o q st (Prog.crashAt n (c.prog cfg o) (calm st log)).2.st := by
  rcases Prog.crashAt_in_trail (c.prog cfg o) n (calm st log) with h0 | h0
  · rw [h0]; exact otherKept_refl o q st
  · exact trail_kept cfg o c st log q h ho hq hc _ h0

/-- what `OtherKept` says, spelled out -/
theorem otherKept_means (q c : Str) (s s' : Store) (hk : OtherKept o q s s')
    (hb : s.pidRefs.get (o.hId q) = some c) :
    s'.pidRefs.get (o.hId q) = some c ∧
    (∀ t, s.cidRefs.get c = some t → inRefs q t = true → ∃ t', s'.cidRefs.get c = some t' ∧ inRefs q t' = true) ∧
    (∀ x, s.objs.get c = some x → s'.objs.get c = some x) := hk c hb

/-- **recovery from any store** (no consistency assumed): see `Proofs/Recover.lean` -/
theorem recovery_from_any_store (S : Store) (log : List Eff) (p : Str) (t' : Tok) (hp : checkStringOk p = true)
    (hok : OkDigests o) (hnl : AllNl S.cidRefs)
    (hfree : S.objs.get (o.dig cfg.alg t') = none ∨ S.objs.get (o.dig cfg.alg t') = some t') :
    ∃ r1 w1 m w2, (deleteObject cfg o (.str p)).run (calm S log) = (r1, w1) ∧
      (r1 = .ok .unit ∨ r1 = .error .pidRefsDoesNotExist) ∧
      (storeObject cfg o (.str p) (.ok t') .none .none .none .none).run w1 = (.ok (.objMeta m), w2) ∧
      ((retrieveObject cfg o (.str p)).run w2).1 = .ok (.content t') :=
  recover_any cfg o S log p t' hp hok hnl hfree

/-- **never wedged**: take any of store_object, tag_object, delete_object,
    store_metadata, delete_metadata with any arguments, started from a store
    whose indexes agree, and let the process die at any point `n`. On the store
    that is left (locks gone, as after a restart), for any pid `p` — the
    interrupted one in particular — and any data whose address holds no foreign
    content: `delete_object(p)` returns normally or reports `p` unknown,
    `store_object(p, data)` then returns normally, and `retrieve_object(p)`
    returns exactly the data -/
theorem never_wedged_after_a_crash (c : Call) (st : Store) (log log' : List Eff) (n : Nat) (p : Str) (t' : Tok)
    (h : RefsExact o st) (ho : GoodOracle o) (hp : checkStringOk p = true)
    (hc : (∃ a b d e f g, c = .storeObject a b d e f g) ∨ (∃ a b, c = .tagObject a b) ∨ (∃ a, c = .deleteObject a) ∨
          (∃ a b d, c = .storeMetadata a b d) ∨ (∃ a b, c = .deleteMetadata a b))
    (hfree : let S := (Prog.crashAt n (c.prog cfg o) (calm st log)).2.st
             S.objs.get (o.dig cfg.alg t') = none ∨ S.objs.get (o.dig cfg.alg t') = some t') :
    let S := (Prog.crashAt n (c.prog cfg o) (calm st log)).2.st
    ∃ r1 w1 m w2, (deleteObject cfg o (.str p)).run (calm S log') = (r1, w1) ∧
      (r1 = .ok .unit ∨ r1 = .error .pidRefsDoesNotExist) ∧
      (storeObject cfg o (.str p) (.ok t') .none .none .none .none).run w1 = (.ok (.objMeta m), w2) ∧
      ((retrieveObject cfg o (.str p)).run w2).1 = .ok (.content t') := by
  intro S
  have hnl : AllNl S.cidRefs := by
    rcases Prog.crashAt_in_trail (c.prog cfg o) n (calm st log) with h0 | h0
    · show AllNl (Prog.crashAt n (c.prog cfg o) (calm st log)).2.st.cidRefs
      rw [h0]; exact allNl_of_exact o h
    · exact trail_nl cfg o c st log h ho hc _ h0
  exact recover_any cfg o S log' p t' hp ho.okDigests hnl hfree

/-- … and with validation arguments on the recovery store: whatever additional
    algorithm, checksum, checksum algorithm and expected size it is given, as long
    as they pass the argument checks and the verdict on the data is "valid" -/
theorem recovery_from_any_store_with_validation (S : Store) (log : List Eff) (p : Str) (t' : Tok)
    (add cks ca : SArg) (sz : IArg) (add' cs' : Option Str) (hp : checkStringOk p = true) (hok : OkDigests o)
    (hint : checkInteger sz = .ok ()) (hac : checkArgAlgorithmsAndChecksum cfg.alg add cks ca = .ok (add', cs'))
    (hv : (verdict ((refineAlgorithmList defaultAlgos add' cs').map fun a => (a, o.dig a t')) (fun a => o.dig a t')
      (o.size t') sz (strArg cks) cs').exc = none)
    (hnl : AllNl S.cidRefs)
    (hfree : S.objs.get (o.dig cfg.alg t') = none ∨ S.objs.get (o.dig cfg.alg t') = some t') :
    ∃ r1 w1 m w2, (deleteObject cfg o (.str p)).run (calm S log) = (r1, w1) ∧
      (r1 = .ok .unit ∨ r1 = .error .pidRefsDoesNotExist) ∧
      (storeObject cfg o (.str p) (.ok t') add cks ca sz).run w1 = (.ok (.objMeta m), w2) ∧
      ((retrieveObject cfg o (.str p)).run w2).1 = .ok (.content t') :=
  recover_any_args cfg o S log p t' add cks ca sz add' cs' hp hok hint hac hv hnl hfree

/-- **never wedged, validated recovery**: as `never_wedged_after_a_crash`, the
    recovery store carrying any accepted validation arguments that the data meets -/
theorem never_wedged_after_a_crash_with_validation (c : Call) (st : Store) (log log' : List Eff) (n : Nat) (p : Str)
    (t' : Tok) (add cks ca : SArg) (sz : IArg) (add' cs' : Option Str)
    (h : RefsExact o st) (ho : GoodOracle o) (hp : checkStringOk p = true)
    (hc : (∃ a b d e f g, c = .storeObject a b d e f g) ∨ (∃ a b, c = .tagObject a b) ∨ (∃ a, c = .deleteObject a) ∨
          (∃ a b d, c = .storeMetadata a b d) ∨ (∃ a b, c = .deleteMetadata a b))
    (hint : checkInteger sz = .ok ()) (hac : checkArgAlgorithmsAndChecksum cfg.alg add cks ca = .ok (add', cs'))
    (hv : (verdict ((refineAlgorithmList defaultAlgos add' cs').map fun a => (a, o.dig a t')) (fun a => o.dig a t')
      (o.size t') sz (strArg cks) cs').exc = none)
    (hfree : let S := (Prog.crashAt n (c.prog cfg o) (calm st log)).2.st
             S.objs.get (o.dig cfg.alg t') = none ∨ S.objs.get (o.dig cfg.alg t') = some t') :
    let S := (Prog.crashAt n (c.prog cfg o) (calm st log)).2.st
    ∃ r1 w1 m w2, (deleteObject cfg o (.str p)).run (calm S log') = (r1, w1) ∧
      (r1 = .ok .unit ∨ r1 = .error .pidRefsDoesNotExist) ∧
      (storeObject cfg o (.str p) (.ok t') add cks ca sz).run w1 = (.ok (.objMeta m), w2) ∧
      ((retrieveObject cfg o (.str p)).run w2).1 = .ok (.content t') := by
  intro S
  have hnl : AllNl S.cidRefs := by
    rcases Prog.crashAt_in_trail (c.prog cfg o) n (calm st log) with h0 | h0
    · show AllNl (Prog.crashAt n (c.prog cfg o) (calm st log)).2.st.cidRefs
      rw [h0]; exact allNl_of_exact o h
    · exact trail_nl cfg o c st log h ho hc _ h0
  exact recover_any_args cfg o S log' p t' add cks ca sz add' cs' hp ho.okDigests hint hac hv hnl hfree

/-- the argument hypothesis is satisfiable (a test on literals): an additional md5, an
    upper-case checksum with its algorithm in DataONE spelling -/
example : checkArgAlgorithmsAndChecksum "sha256".toList (.str "MD5".toList) (.str "AAA0".toList) (.str "SHA-384".toList)
    = .ok (some "md5".toList, some "sha384".toList) := by decide

end HS.C10
