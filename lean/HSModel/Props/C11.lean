/-
  C11 — Metadata documents: faithful round trip, isolation and lifetime.
-/
import HSModel.Proofs.StepLemmas
import HSModel.Proofs.RefineAll
namespace HS.C11
open Abs
variable (cfg : Config) (o : Oracle)

/-- a format argument the checker accepts, and what it resolves to -/
def fmtOf : SArg → Option Str
  | .none => some cfg.ns
  | .str s => if s ≠ [] ∧ strip s = [] then none else some s
  | .other => none

theorem checkArgFormatId_eq (fmt : SArg) (f : Str) (h : fmtOf cfg fmt = some f) :
    checkArgFormatId cfg.ns fmt = .ok f := by
  cases fmt with
  | none => simp [fmtOf] at h; simp [checkArgFormatId, h]
  | other => simp [fmtOf] at h
  | str s =>
    simp only [fmtOf] at h
    split at h
    · cases h
    · rename_i hn; cases h; simp [checkArgFormatId, hn]

theorem metaArgs_eq (p : Str) (fmt : SArg) (f : Str) (hp : checkStringOk p = true)
    (h : fmtOf cfg fmt = some f) : metaArgs cfg (.str p) fmt = .ok (p, f) := by
  simp [metaArgs, checkString, hp, checkArgFormatId_eq cfg fmt f h]

/-- store then retrieve under the same (pid, format) returns exactly the stored
    document, the format being omitted (= default namespace) or explicit -/
theorem store_then_retrieve (a : Abs) (p : Str) (t : Tok) (fmt : SArg) (f : Str)
    (hp : checkStringOk p = true) (hf : fmtOf cfg fmt = some f) :
    (step cfg o (step cfg o a (.storeMetadata (.str p) (.ok t) fmt)).2
        (.retrieveMetadata (.str p) fmt)).1 = .ok (.content t) := by
  simp [step, storeMeta, retrieveMeta, metaArgs_eq cfg p fmt f hp hf, checkString, hp,
    checkArgData, checkArgFormatId_eq cfg fmt f hf, openStream]

/-- an omitted format means the configured default namespace, also when that
    namespace is given explicitly -/
theorem default_format (a : Abs) (pid : SArg) (hns : fmtOf cfg (.str cfg.ns) = some cfg.ns) :
    step cfg o a (.retrieveMetadata pid .none) = step cfg o a (.retrieveMetadata pid (.str cfg.ns)) := by
  have h1 := checkArgFormatId_eq cfg .none cfg.ns rfl
  have h2 := checkArgFormatId_eq cfg (.str cfg.ns) cfg.ns hns
  simp [step, retrieveMeta, metaArgs, h1, h2]

/-- storing under (p, f) leaves every other pair's document as it was -/
theorem store_isolated (a : Abs) (pid : SArg) (data : DataArg) (fmt : SArg) (q g : Str)
    (hne : ∀ p f, pid = .str p → fmtOf cfg fmt = some f → (p, f) ≠ (q, g)) :
    (step cfg o a (.storeMetadata pid data fmt)).2.docs.get (q, g) = a.docs.get (q, g) := by
  simp only [step, storeMeta]
  split
  · rfl
  · rename_i p f hargs
    simp only [bind_eq_ok, pure_eq_ok] at hargs
    obtain ⟨p', hp', _, _, f', hf', hh⟩ := hargs
    cases hh
    have hpid := checkString_ok hp'
    have hfmt : fmtOf cfg fmt = some f := by
      cases fmt with
      | none => simp [checkArgFormatId] at hf'; simp [fmtOf, hf']
      | other => simp [checkArgFormatId] at hf'
      | str s =>
        simp only [checkArgFormatId] at hf'
        split at hf'
        · cases hf'
        · rename_i hn; cases hf'; simp [fmtOf, hn]
    split
    · rfl
    · simp only []
      rw [FMap.get_set_ne _ _ (hne p f hpid hfmt)]

/-- `delete_metadata(p, f)` removes just that document … -/
theorem delete_one (a : Abs) (p f : Str) (fmt : SArg) (hp : checkStringOk p = true)
    (hfmt : fmt ≠ .none) (hf : fmtOf cfg fmt = some f) :
    let a' := (step cfg o a (.deleteMetadata (.str p) fmt)).2
    (step cfg o a (.deleteMetadata (.str p) fmt)).1 = .ok .unit ∧
    a'.docs.get (p, f) = none ∧ ∀ q g, (q, g) ≠ (p, f) → a'.docs.get (q, g) = a.docs.get (q, g) := by
  cases fmt with
  | none => exact absurd rfl hfmt
  | other => simp [fmtOf] at hf
  | str s =>
    simp only [step, deleteMeta, metaArgs_eq cfg p (.str s) f hp hf]
    refine ⟨trivial, by simp, ?_⟩
    intro q g hne
    rw [FMap.get_del_ne _ (Ne.symm hne)]

/-- … `delete_metadata(p)` removes all of p's documents and none of any other
    pid's; deleting what is not there is a silent no-op -/
theorem delete_all (a : Abs) (p : Str) (hp : checkStringOk p = true) :
    let a' := (step cfg o a (.deleteMetadata (.str p) .none)).2
    (step cfg o a (.deleteMetadata (.str p) .none)).1 = .ok .unit ∧
    (∀ g, a'.docs.get (p, g) = none) ∧
    ∀ q g, q ≠ p → a'.docs.get (q, g) = a.docs.get (q, g) := by
  simp only [step, deleteMeta, metaArgs_eq cfg p .none cfg.ns hp rfl]
  refine ⟨trivial, ?_, ?_⟩
  · intro g; simp [dropDocs_get]
  · intro q g hq; simp [dropDocs_get, hq]

/-- a successful `delete_object(p)` removes all of p's documents and no other
    pid's -/
theorem delete_object_removes_all (a : Abs) (p c : Str) (hp : checkStringOk p = true)
    (hb : a.bind.get p = some c) :
    let a' := (step cfg o a (.deleteObject (.str p))).2
    (∀ g, a'.docs.get (p, g) = none) ∧ ∀ q g, q ≠ p → a'.docs.get (q, g) = a.docs.get (q, g) := by
  simp only [step, deleteObj, checkString, hp, if_true, hb]
  refine ⟨?_, ?_⟩
  · intro g; simp [dropDocs_get]
  · intro q g hq; simp [dropDocs_get, hq]

/-- retrieving what does not exist is a not-found error (ValueError) -/
theorem retrieve_absent (a : Abs) (p f : Str) (fmt : SArg) (hp : checkStringOk p = true)
    (hf : fmtOf cfg fmt = some f) (h : a.docs.get (p, f) = none) :
    step cfg o a (.retrieveMetadata (.str p) fmt) = (.error .valueError, a) := by
  simp [step, retrieveMeta, metaArgs_eq cfg p fmt f hp hf, h]

/-- object calls never touch documents (only `delete_object` does) -/
theorem object_calls_keep_docs (a : Abs) (pid cid : SArg) (data : DataArg) (add cks ca : SArg)
    (sz : IArg) (om : Option ObjMeta) :
    (step cfg o a (.storeObject pid data add cks ca sz)).2.docs = a.docs ∧
    (step cfg o a (.tagObject pid cid)).2.docs = a.docs ∧
    (step cfg o a (.deleteIfInvalid om cks ca sz)).2.docs = a.docs := by
  refine ⟨?_, ?_, ?_⟩
  · simp only [step]; split
    · exact storeData_docs cfg o a data
    · exact storeObj_docs cfg o a pid data add cks ca sz
  · exact tagObj_docs a pid cid
  · exact divObj_docs cfg o a om cks ca sz

/-- On disk a document lives at (H pid, H (pid ++ format)). With no collision
    of H on the strings in play, different (pid, format) pairs never share a
    location — including pairs whose concatenations coincide, such as
    ("ab","c") and ("a","bc"): same document name, different directory. -/
theorem key_injective (U : List Str) (hnc : NoColl o.hId U) (p f q g : Str)
    (hp : p ∈ U) (hq : q ∈ U) (hpf : p ++ f ∈ U) (hqg : q ++ g ∈ U)
    (h : (o.hId p, o.hId (p ++ f)) = (o.hId q, o.hId (q ++ g))) : p = q ∧ f = g := by
  have h1 : p = q := hnc p hp q hq (Prod.mk.inj h).1
  have h2 : p ++ f = q ++ g := hnc _ hpf _ hqg (Prod.mk.inj h).2
  subst h1
  exact ⟨rfl, List.append_cancel_left h2⟩

example : fmtOf { depth := 3, width := 2, alg := [], ns := "ns".toList } (.str "f1".toList)
    = some "f1".toList := by decide


/-- **concrete**: store a document, retrieve it under the same (pid, format):
    the concrete calls return exactly the stored document -/
theorem concrete_store_then_retrieve (st : Store) (log : List Eff) (a : Abs) (hs : Sim o st a) (ho : GoodOracle o)
    (p : Str) (t : Tok) (fmt : SArg) (f : Str) (hp : checkStringOk p = true) (hf : fmtOf cfg fmt = some f) :
    let w1 := ((storeMetadata cfg o (.str p) (.ok t) fmt).run (calm st log)).2
    ((retrieveMetadata cfg o (.str p) fmt).run w1).1 = .ok (.content t) := by
  intro w1
  obtain ⟨w1', hrun1, hlk1, hnf1, hs1⟩ := refines_step cfg o (.storeMetadata (.str p) (.ok t) fmt) st log a hs ho trivial
  have hw1 : w1 = w1' := by
    show (Prog.run (storeMetadata cfg o (.str p) (.ok t) fmt) (calm st log)).2 = w1'
    have : (storeMetadata cfg o (.str p) (.ok t) fmt).run (calm st log) = _ := hrun1
    rw [this]
  obtain ⟨w2, hrun2, _, _, _⟩ := refines_step_world cfg o (.retrieveMetadata (.str p) fmt) w1' _ hlk1 hnf1 hs1 ho trivial
  have hrun2' : (retrieveMetadata cfg o (.str p) fmt).run w1' = _ := hrun2
  rw [hw1, hrun2', store_then_retrieve cfg o a p t fmt f hp hf]

end HS.C11
