/-
  C12 — Concurrent metadata operations are atomic and linearizable.   (`_partial`)
  Proved:
   * a document changes only by a whole-file publish / retire / remove (C09's
     atomicity lemma), so a reader gets one complete version or not-found;
   * the document lock: every call takes and returns the `doc` class in order and
     holds nothing at the end (C08), mutual exclusion holds on document names
     for every schedule;
   * two single-document deletes exclude each other (a thread at the acquire is not
     enabled while the name is held): `single_document_deletes_exclude`.
   * the single-document class {store_metadata(p, f, ·), delete_metadata(p, f)} is
     linearizable, for any number of threads and every schedule
     (`single_document_class_serialises`, `…_linearizable`): all work of these
     calls lies between the claim and the release of the document name
     (`Proofs/Serial.lean`: serialisation of bracketed threads).
   * readers: `reader_gets_one_whole_version` — any number of threads running ANY calls on any
     pids and formats (stores, deletes of one or all documents, `delete_object`, readers), every
     schedule, every granularity of interleaving down to single primitives: a
     `retrieve_metadata` that returns normally returns one complete version — one that was in the
     store at the start or that one of the concurrent `store_metadata` calls supplied — and
     every document in the directory is such a version at every step (so "the final document is
     a complete supplied version or is absent").
  Not proved: that the version a reader gets is the one a sequential order would give it when
  writers of the same document overlap it, and mixes with `delete_object`.
  Refuted: with `delete_metadata(p)` (all formats) in the menu the full statement is
  false — the directory is listed before any name is claimed (K3); witness by
  `decide`, replayed on the real threads on every run.
  Repaired defect D7 (wait loops tested the pid instead of the document name) is
  documented in known_findings.json; the model has the repaired behaviour.
-/
import HSModel.Props.C09
import HSModel.Proofs.ConcLemmas
import HSModel.Proofs.LockLemmas
import HSModel.Proofs.SerialSpec
namespace HS.C12

/-- a metadata document changes value only by a whole-file step -/
theorem documents_change_atomically (s s' : Store) (x : Eff) (ha : s.apply x = some s')
    (hne : s'.mdocs ≠ s.mdocs) :
    (∃ d n t, x = .publishDoc d n t) ∨ (∃ l, x = .retire l) ∨ (∃ l, x = .remove l) := by
  rcases C09.permanent_entries_change_atomically s s' x ha with h | h | h | h | h | h
  · exact absurd h.2.1 hne
  · obtain ⟨c, t, rfl⟩ := h
    simp only [Store.apply] at ha
    split at ha <;> cases ha
    exact absurd rfl hne
  · exact Or.inl h
  · obtain ⟨k, t, rfl⟩ := h
    simp only [Store.apply] at ha
    split at ha <;> cases ha
    exact absurd rfl hne
  · exact Or.inr (Or.inl h)
  · exact Or.inr (Or.inr h)

/-- the monitor gives mutual exclusion on document names -/
theorem doc_mutex (s : Sys) (r : Reach Sys.initial s) (i j : Nat) (n : Str)
    (hi : (⟨.doc, n⟩ : Lock) ∈ (s i).held) (hj : (⟨.doc, n⟩ : Lock) ∈ (s j).held) : i = j :=
  (inv_reach _ _ inv_initial r).1.1 i j _ hi hj

/-! ### K3: delete-all lists the directory before claiming a name -/

def oW : Oracle :=
  { hId := fun s => 'h' :: s, dig := fun _ t => if t = 1 then "cx".toList else "cy".toList, size := fun _ => 1 }
def cfgW : Config := { depth := 1, width := 1, alg := "sha256".toList, ns := "ns".toList }
def sched (s : String) : List Nat := s.toList.map fun c => c.toNat - 48
def p1 : SArg := .str "p1".toList
def resOf : TState → Option (Except Exc Val)
  | .finished r => some r
  | _ => none
/-- start: p1 has one document -/
def wDoc : World := ((storeMetadata cfgW oW p1 (.ok 1) .none).run { st := Store.empty }).2

/-- two concurrent `delete_metadata(p1)`: T0 lists the directory, T1 deletes the
    document, T0 then tries to rename what it listed and fails with
    FileNotFoundError — sequentially both calls succeed (the second is a no-op) -/
def k3 : Conf × Nat := runSchedule 1000
  { w := wDoc, ts := [.fresh (deleteMetadata cfgW oW p1 .none), .fresh (deleteMetadata cfgW oW p1 .none)] }
  (sched "011111000") 0

theorem k3_delete_all_race :
    k3.2 = 9 ∧ k3.1.allFinished = true ∧
    (k3.1.ts.map resOf)[0]? = some (some (.error .fileNotFound)) ∧
    (k3.1.ts.map resOf)[1]? = some (some (.ok .unit)) := by decide

/-- whereas two concurrent single-document deletes exclude each other: with the same
    kind of schedule the second thread is simply not enabled while the first holds
    the document name (the behaviour repaired by the fix of D7) -/
def d7 : Conf × Nat := runSchedule 1000
  { w := wDoc, ts := [.fresh (deleteMetadata cfgW oW p1 (.str "ns".toList)),
                      .fresh (deleteMetadata cfgW oW p1 (.str "ns".toList))] }
  (sched "0011") 0

theorem single_document_deletes_exclude : d7.2 = 3 ∧ d7.1.anyEnabled = true := by decide

/-! ### the single-document class -/

/-- **The single-document class serialises.** Any number of threads, each a
    `store_metadata` or a `delete_metadata(pid, format)` call whose document name
    is `doc` (or a call rejected for its arguments); any start world in which
    `doc` is not claimed — any directory, any other identifiers held, any fault
    plan —; any schedule of the interleaving semantics, any step budget. When all
    calls have returned, the world (directory, lock lists, fault plan, effect
    log) is exactly the one reached by running the calls whole, one after the
    other, in some order, and each call returned what it returns in that
    sequential run: the final document is the last-ordered version or absent,
    and no call fails with an error the sequential run does not produce. -/
theorem single_document_class_serialises (cfg : Config) (o : Oracle) (doc : Str) (calls : List Call)
    (hc : ∀ x ∈ calls, OnDoc cfg o doc x) (w0 : World) (h0 : doc ∉ w0.lk.doc) (fuel : Nat) (sched : List Nat) :
    let progs := calls.map (Call.tprog cfg o)
    let fin := (runSchedule fuel { w := w0, ts := progs.map .fresh } sched 0).1
    fin.allFinished = true →
    ∃ order : List Nat, order.Nodup ∧ (∀ j, j ∈ order ↔ j < calls.length) ∧
      fin.w = (seqRun progs order w0).1 ∧
      ∀ (j : Nat) (t : TState), fin.ts[j]? = some t → ∃ v, t = TState.finished v ∧ (j, v) ∈ (seqRun progs order w0).2 := by
  exact serial_of_bracketed cfg o .doc doc calls
    (fun x hx => Prog.bracketedU_of_bracketed _ (onDoc_bracketed cfg o doc x (hc x hx))) w0 h0 fuel sched

/-- … and is linearizable with respect to the specification: started on a
    directory that simulates `a` (in particular after any history from the empty
    store), with nothing claimed and no fault plan, there is an order of the
    calls in which `Abs.step`, run call after call from `a`, returns exactly what
    the threads returned, and the final directory simulates its final state. -/
theorem single_document_class_linearizable (cfg : Config) (o : Oracle) (doc : Str) (calls : List Call)
    (hc : ∀ x ∈ calls, OnDoc cfg o doc x) (st : Store) (log : List Eff) (a : Abs) (hs : Sim o st a)
    (ho : GoodOracle o) (fuel : Nat) (sched : List Nat) :
    let fin := (runSchedule fuel { w := calm st log, ts := (calls.map (Call.tprog cfg o)).map .fresh } sched 0).1
    fin.allFinished = true →
    ∃ order : List Nat, order.Nodup ∧ (∀ j, j ∈ order ↔ j < calls.length) ∧
      Sim o fin.w.st (specHist cfg o (pick calls order) a).2 ∧ fin.w.lk = {} ∧
      ∀ (j : Nat) (t : TState), fin.ts[j]? = some t →
        ∃ v, t = TState.finished v ∧ (j, v) ∈ order.zip (specHist cfg o (pick calls order) a).1 :=
  linearizable_of_bracketed cfg o .doc doc calls
    (fun x hx => Prog.bracketedU_of_bracketed _ (onDoc_bracketed cfg o doc x (hc x hx)))
    (fun x hx => by
      have := hc x hx
      cases x <;> first | trivial | exact this.elim)
    st log a hs ho fuel sched

/-! the hypotheses are satisfiable: three calls on one document, an interleaved
    schedule after which all have returned (a test of the statement on literals) -/
def callsS : List Call :=
  [.storeMetadata p1 (.ok 1) .none, .deleteMetadata p1 (.str "ns".toList), .storeMetadata p1 (.ok 2) .none]
def serialDemo : Conf × Nat := runSchedule 1000
  { w := { st := Store.empty }, ts := (callsS.map (Call.tprog cfgW oW)).map .fresh } (sched "1200000022222111") 0
example : serialDemo.1.allFinished = true ∧ serialDemo.2 = 16 := by decide
example : ∀ x ∈ callsS, OnDoc cfgW oW "hp1ns".toList x := by
  have hp : checkString p1 = .ok "p1".toList := by decide
  have hf1 : checkArgFormatId cfgW.ns .none = .ok "ns".toList := by decide
  have hf2 : checkArgFormatId cfgW.ns (.str "ns".toList) = .ok "ns".toList := by decide
  intro x hx
  simp only [callsS, List.mem_cons, List.not_mem_nil, or_false] at hx
  rcases hx with rfl | rfl | rfl
  · intro p f h1 h2; rw [hp] at h1; rw [hf1] at h2; cases h1; cases h2; rfl
  · refine ⟨(by intro h; cases h), ?_⟩
    intro p f h1 h2; rw [hp] at h1; rw [hf2] at h2; cases h1; cases h2; rfl
  · intro p f h1 h2; rw [hp] at h1; rw [hf1] at h2; cases h1; cases h2; rfl

/-! ### readers beside writers -/

/-- **A reader gets one complete version or an error; documents are whole at every step.**
    Any number of threads running any calls (writers and deleters of the same or other documents,
    `delete_object`, readers), from any world whose documents hold versions from `ts0`, every
    schedule, every granularity (`fuel = 1`: one primitive per step, so a reader may be
    overtaken between its existence probe and its read): at every step every document holds a
    version from `ts0` or one a `store_metadata` call of the set supplied, and a
    `retrieve_metadata` that has returned normally returned such a version. -/
theorem reader_gets_one_whole_version (cfg : Config) (o : Oracle) (calls : List Call) (w0 : World)
    (vs0 : List Str) (ts0 : List Tok) (hv : C09.ValuesFrom vs0 ts0 w0.st) (hob : C09.ObjsAddressed cfg o w0.st)
    (fuel : Nat) (sched : List Nat) (n : Nat) :
    let cf := (runSchedule fuel { w := w0, ts := calls.map (fun c => TState.fresh (c.prog cfg o)) } sched n).1
    let ts := ts0 ++ calls.flatMap C09.docsSupplied
    (∀ d m t, cf.w.st.mdocs.get (d, m) = some t → t ∈ ts) ∧
    ∀ (i : Nat) (r : Except Exc Val) (pid f : SArg), cf.ts[i]? = some (.finished r) →
      calls[i]? = some (.retrieveMetadata pid f) → ∀ t, r = .ok (.content t) → t ∈ ts := by
  intro cf ts
  have h := C09.whole_under_every_interleaving cfg o calls w0 vs0 ts0 hv hob fuel sched n
  exact ⟨h.1.2, fun i r pid f hi hc => (h.2.2 i r hi).1 pid f hc⟩

/-- tests of the statement on literals: a writer, a reader and a deleter of one document, one
    primitive per step. (a) the reader runs after the writer: it returns version 1; (b) the
    reader is overtaken by the deleter between its existence probe and its read: it returns a
    not-found error, not a partial document -/
def readerCalls : List Call := [.storeMetadata p1 (.ok 1) .none, .retrieveMetadata p1 .none, .deleteMetadata p1 .none]
def readerDemo (s : List Nat) : Conf × Nat := runSchedule 1
  { w := { st := Store.empty }, ts := readerCalls.map (fun c => TState.fresh (c.prog cfgW oW)) } s 0
def finishedWith : Option TState → Option (Except Exc Val)
  | some (.finished r) => some r
  | _ => none
example : finishedWith (readerDemo (List.replicate 6 0 ++ [1, 1, 1])).1.ts[1]? = some (.ok (.content 1)) := by decide
example : (readerDemo (List.replicate 6 0 ++ [1] ++ List.replicate 6 2 ++ [1, 1])).1.allFinished = true ∧
    finishedWith (readerDemo (List.replicate 6 0 ++ [1] ++ List.replicate 6 2 ++ [1, 1])).1.ts[1]?
      = some (.error .fileNotFound) := by decide

end HS.C12
