/-
  C12 — Concurrent metadata operations are atomic and linearizable.   (`_partial`)
  Proved:
   * a document changes only by a whole-file publish / retire / remove (C09's
     atomicity lemma), so a reader gets one complete version or not-found;
   * the document lock: every call takes and returns the `doc` class in order and
     holds nothing at the end (C08), mutual exclusion holds on document names
     for every schedule;
   * two single-document deletes exclude each other (a thread at the acquire is not
     enabled while the name is held): `single_document_deletes_exclude`.
  Not proved: coverage of the publish / remove by the held document name as a
  static theorem, and section-level linearizability of {store, retrieve, delete(f)}.
  Refuted: with `delete_metadata(p)` (all formats) in the menu the full statement is
  false — the directory is listed before any name is claimed (K3); witness by
  `decide`, replayed on the real threads on every run.
  Repaired defect D7 (wait loops tested the pid instead of the document name) is
  documented in known_findings.json; the model has the repaired behaviour.
-/
import HSModel.Props.C09
import HSModel.Proofs.ConcLemmas
import HSModel.Proofs.LockLemmas
namespace HS.C12

/-- a metadata document changes value only by a whole-file step -/
theorem documents_change_atomically (s s' : Store) (x : Eff) (ha : s.apply x = some s')
    (hne : s'.mdocs ≠ s.mdocs) :
    (∃ d n t, x = .publishDoc d n t) ∨ (∃ l, x = .retire l) ∨ (∃ l, x = .remove l) := by
  rcases C09.permanent_entries_change_atomically s s' x ha with h | h | h | h | h | h
  · exact absurd h.2.1 hne
  · obtain ⟨c, t, rfl⟩ := h
    simp only [Store.apply] at ha
    split at ha <;> cases ha
    exact absurd rfl hne
  · exact Or.inl h
  · obtain ⟨k, t, rfl⟩ := h
    simp only [Store.apply] at ha
    split at ha <;> cases ha
    exact absurd rfl hne
  · exact Or.inr (Or.inl h)
  · exact Or.inr (Or.inr h)

/-- the monitor gives mutual exclusion on document names -/
theorem doc_mutex (s : Sys) (r : Reach Sys.initial s) (i j : Nat) (n : Str)
    (hi : (⟨.doc, n⟩ : Lock) ∈ (s i).held) (hj : (⟨.doc, n⟩ : Lock) ∈ (s j).held) : i = j :=
  (inv_reach _ _ inv_initial r).1.1 i j _ hi hj

/-! ### K3: delete-all lists the directory before claiming a name -/

def oW : Oracle :=
  { hId := fun s => 'h' :: s, dig := fun _ t => if t = 1 then "cx".toList else "cy".toList, size := fun _ => 1 }
def cfgW : Config := { depth := 1, width := 1, alg := "sha256".toList, ns := "ns".toList }
def sched (s : String) : List Nat := s.toList.map fun c => c.toNat - 48
def p1 : SArg := .str "p1".toList
def resOf : TState → Option (Except Exc Val)
  | .finished r => some r
  | _ => none
/-- start: p1 has one document -/
def wDoc : World := ((storeMetadata cfgW oW p1 (.ok 1) .none).run { st := Store.empty }).2

/-- two concurrent `delete_metadata(p1)`: T0 lists the directory, T1 deletes the
    document, T0 then tries to rename what it listed and fails with
    FileNotFoundError — sequentially both calls succeed (the second is a no-op) -/
def k3 : Conf × Nat := runSchedule 1000
  { w := wDoc, ts := [.fresh (deleteMetadata cfgW oW p1 .none), .fresh (deleteMetadata cfgW oW p1 .none)] }
  (sched "011111000") 0

theorem k3_delete_all_race :
    k3.2 = 9 ∧ k3.1.allFinished = true ∧
    (k3.1.ts.map resOf)[0]? = some (some (.error .fileNotFound)) ∧
    (k3.1.ts.map resOf)[1]? = some (some (.ok .unit)) := by decide

/-- whereas two concurrent single-document deletes exclude each other: with the same
    kind of schedule the second thread is simply not enabled while the first holds
    the document name (the behaviour repaired by the fix of D7) -/
def d7 : Conf × Nat := runSchedule 1000
  { w := wDoc, ts := [.fresh (deleteMetadata cfgW oW p1 (.str "ns".toList)),
                      .fresh (deleteMetadata cfgW oW p1 (.str "ns".toList))] }
  (sched "0011") 0

theorem single_document_deletes_exclude : d7.2 = 3 ∧ d7.1.anyEnabled = true := by decide

end HS.C12
