/-
  C13 — I/O failures surface as errors and leave no half-bound pid.
  The fault semantics is part of the one interpreter (`respond` consults the
  fault plan of the world), so every theorem proved for "any world" holds under
  every fault plan: any site kind, any destination, one-off or persistent.
  Proved (`_partial`):
   * under any plan, a call on pid p leaves every other pid's reference and
     documents untouched, and objects well addressed (C10 / C09 lemmas);
   * how a plan fires: a one-off plan fails at most one primitive; a one-off
     rename failure is absorbed by `shutil.move`'s copy fallback;
   * the full statement is FALSE of the model (and of the code): a persistent
     failure of reading the pid reference during `tag_object` leaves the pid
     half-bound and the retry is rejected — witness checked by `decide`; the same
     run is replayed on the real code by this check (known finding K4).
   * `store_metadata` under ANY fault plan, from any state: it returns the path
     and the document is the new version, or it raises and every document —
     the previous version of this one included — is as before.
   * `tag_object` and `store_object(pid, …)` under ANY fault plan, from any
     state: if the call returns normally then its whole effect was achieved —
     the pid reference names the (reported) cid and the cid's list names the
     pid; the reported cid and size are the data's.
   * `tag_object(p, c)` on an unbound pid under a ONE-OFF failure at each of the
     fault sites of its fault-free run (both starting cases: c without a list, c
     with a list not naming p; every store): it returns normally, or raises with
     everything released, p still unbound and every list text well formed — and
     the same call made again at once returns normally.
   * the same for `store_object(p, data)` without validation arguments, in the
     four starting cases (object absent / present, cid list absent / present):
     every fault site of placement and tagging; after the failure the pid is
     unbound, nothing foreign was added, and the same call made again at once
     returns normally and the data is retrievable.
  Not proved: that a one-off plan aimed at no site of the run never fires;
  `store_object` with validation arguments (established by the fault sweep of this check on the real code and by
  model/code agreement under every plan).
-/
import HSModel.Props.C09
import HSModel.Props.C10
import HSModel.Proofs.FaultMeta
import HSModel.Proofs.OkStore
import HSModel.Proofs.OkDelete
import HSModel.Proofs.RollbackAll
import HSModel.Proofs.RollbackStoreAll
import HSModel.Proofs.FaultDMeta
namespace HS.C13
variable (cfg : Config) (o : Oracle)

/-- under any fault plan (`w.fault` arbitrary), other pids are untouched -/
theorem others_untouched_under_any_fault (c : Call) (p q : Str) (hc : c.pidStr = some p)
    (hne : o.hId q ≠ o.hId p) (hlen : (o.hId q).length = (o.hId p).length) (w : World) (f : Fault) :
    C10.SameFor (o.hId q) w.st ((c.prog cfg o).run { w with fault := some f }).2.st :=
  C10.other_pids_untouched_after cfg o c p q hc hne hlen { w with fault := some f }

/-- under any fault plan, no object ever sits at an address that is not its digest -/
theorem objects_well_addressed_under_any_fault (c : Call) (w : World) (f : Fault)
    (h : C09.ObjsAddressed cfg o w.st) :
    C09.ObjsAddressed cfg o ((c.prog cfg o).run { w with fault := some f }).2.st :=
  C09.objects_well_addressed_after cfg o c { w with fault := some f } h

/-- `store_metadata` under any fault plan (any site kind, any destination, one-off
    or persistent, any state of the plan), from any store and any lock state in
    which the document's name is free: **the path is returned and the document
    is the new version, or an error is raised and every document is as before**
    (the previous version is intact) -/
theorem store_metadata_error_or_whole_effect (w : World) (p f : Str) (t : Tok) (fmt : SArg)
    (hp : checkStringOk p = true) (hf : checkArgFormatId cfg.ns fmt = .ok f)
    (hfree : o.hId (p ++ f) ∉ w.lk.doc) :
    (((storeMetadata cfg o (.str p) (.ok t) fmt).run w).1 = .ok (.path (.mdoc (o.hId p) (o.hId (p ++ f)))) ∧
        ((storeMetadata cfg o (.str p) (.ok t) fmt).run w).2.st.mdocs = w.st.mdocs.set (o.hId p, o.hId (p ++ f)) t) ∨
      (∃ e, ((storeMetadata cfg o (.str p) (.ok t) fmt).run w).1 = .error e ∧
        ((storeMetadata cfg o (.str p) (.ok t) fmt).run w).2.st.mdocs = w.st.mdocs) :=
  smeta_error_or_effect cfg o w p f t fmt hp hf hfree

/-- `delete_metadata(pid, format)` under ANY fault plan (any site, one-off or persistent, any state
    of the plan), from any store and any lock state in which the document's name is free: **it
    returns and exactly that document is gone, or an error is raised and every document is as
    before** -/
theorem delete_metadata_error_or_whole_effect (w : World) (p f : Str) (fmt : SArg) (hfmt : fmt ≠ .none)
    (hp : checkStringOk p = true) (hf : checkArgFormatId cfg.ns fmt = .ok f)
    (hfree : o.hId (p ++ f) ∉ w.lk.doc) :
    (((deleteMetadata cfg o (.str p) fmt).run w).1 = .ok .unit ∧
        ((deleteMetadata cfg o (.str p) fmt).run w).2.st.mdocs = w.st.mdocs.del (o.hId p, o.hId (p ++ f))) ∨
      (∃ e, ((deleteMetadata cfg o (.str p) fmt).run w).1 = .error e ∧
        ((deleteMetadata cfg o (.str p) fmt).run w).2.st.mdocs = w.st.mdocs) :=
  dmeta_error_or_effect cfg o w p f fmt hfmt hp hf hfree

/-- `tag_object` under any fault plan, from any store and any lock state:
    **a normal return means the whole effect** — the arguments were accepted, the
    pid reference holds the cid, and the cid's reference list names the pid -/
theorem tag_object_success_means_bound (pid cid : SArg) (w w' : World) (v : Val)
    (h : Prog.run (tagObject cfg o pid cid) w = (.ok v, w')) :
    ∃ p c, checkString pid = .ok p ∧ checkString cid = .ok c ∧
      w'.st.pidRefs.get (o.hId p) = some c ∧ ∃ t, w'.st.cidRefs.get c = some t ∧ inRefs p t = true :=
  tag_ok_inv cfg o pid cid w w' v h

/-- `store_object(pid, data, …)` under any fault plan, from any store and any
    lock state: **a normal return means the whole effect** — what is reported is
    the digest and size of the data, the pid reference holds that cid, and the
    cid's reference list names the pid -/
theorem store_object_success_means_bound (pid : SArg) (data : DataArg) (additional checksum csAlg : SArg)
    (expSize : IArg) (hnone : pid ≠ .none) (w w' : World) (v : Val)
    (h : Prog.run (storeObject cfg o pid data additional checksum csAlg expSize) w = (.ok v, w')) :
    ∃ p t m, checkString pid = .ok p ∧ openStream data = .ok t ∧ v = .objMeta m ∧
      m.cid = o.dig cfg.alg t ∧ m.size = o.size t ∧
      w'.st.pidRefs.get (o.hId p) = some m.cid ∧ ∃ x, w'.st.cidRefs.get m.cid = some x ∧ inRefs p x = true :=
  store_ok_inv cfg o pid data additional checksum csAlg expSize hnone w w' v h

/-- `delete_object(pid)` under any fault plan, from any store and any lock
    state: **a normal return means the pid has no pid reference any more** -/
theorem delete_object_success_means_unbound (p : Str) (w w' : World) (v : Val)
    (h : Prog.run (deleteObject cfg o (.str p)) w = (.ok v, w')) : w'.st.pidRefs.get (o.hId p) = none :=
  delete_ok_inv cfg o p w w' v h

/-- **one-off failures roll back** (c has no reference list): for every store in
    which p is unbound and c has no list, and every fault site of the call's
    fault-free run, a one-off failure there makes `tag_object(p, c)` either
    return normally or raise with all identifiers released, p still unbound, all
    list texts well formed, objects untouched, and the plan spent -/
theorem one_off_failure_rolls_back_new_list (st : Store) (log : List Eff) (p c : Str)
    (hp : checkStringOk p = true) (hc : checkStringOk c = true)
    (h1 : st.pidRefs.get (o.hId p) = none) (h2 : st.cidRefs.get c = none) :
    ∀ s ∈ tagSitesNew o p c, ∃ r w', (tagObject cfg o (.str p) (.str c)).run (planned st log s.1 s.2.1 s.2.2) = (r, w') ∧
      RolledBack o p st r w' :=
  tag_new_list_all cfg o st log p c hp hc h1 h2

/-- **one-off failures roll back** (c has a list that does not name p) -/
theorem one_off_failure_rolls_back_append (st : Store) (log : List Eff) (p c : Str) (ls : List Str)
    (hp : checkStringOk p = true) (hc : checkStringOk c = true) (h1 : st.pidRefs.get (o.hId p) = none)
    (h2 : st.cidRefs.get c = some (renderLines ls)) (hls : ∀ l ∈ ls, hasSpace l = false) (hnot : p ∉ ls) (hne : ls ≠ []) :
    ∀ s ∈ tagSitesAppend o p c, ∃ r w', (tagObject cfg o (.str p) (.str c)).run (planned st log s.1 s.2.1 s.2.2) = (r, w') ∧
      RolledBack o p st r w' :=
  tag_append_all cfg o st log p c ls hp hc h1 h2 hls hnot hne

/-- the two site lists are exactly the fault sites the fault-free run passes, in
    order, with their occurrence numbers (nothing is left out) -/
theorem fault_sites_complete (st : Store) (log : List Eff) (p c : Str) (hp : checkStringOk p = true)
    (hc : checkStringOk c = true) (h1 : st.pidRefs.get (o.hId p) = none) :
    (st.cidRefs.get c = none → sitesOfRun (tagObject cfg o (.str p) (.str c)) (calm st log) = tagSitesNew o p c) ∧
    (∀ ls, st.cidRefs.get c = some (renderLines ls) → (∀ l ∈ ls, hasSpace l = false) → p ∉ ls →
      sitesOfRun (tagObject cfg o (.str p) (.str c)) (calm st log) = tagSitesAppend o p c) :=
  ⟨fun h2 => tag_sites_new_complete cfg o st log p c hp hc h1 h2,
   fun ls h2 hls hnot => tag_sites_append_complete cfg o st log p c ls hp hc h1 h2 hls hnot⟩

/-- **… and the pid can be tagged again at once**: after such a rolled-back
    failure, the same call made again (the spent plan still in place) returns normally -/
theorem retry_at_once_succeeds (st : Store) (p c : Str) (r : Except Exc Val) (w' : World)
    (hp : checkStringOk p = true) (hc : checkStringOk c = true) (hnl : AllNl st.cidRefs)
    (hrb : RolledBack o p st r w') (herr : ∀ v, r ≠ .ok v) :
    ((tagObject cfg o (.str p) (.str c)).run w').1 = .ok .unit :=
  retry_after_rollback cfg o st p c r w' hp hc hnl hrb herr

/-- **one-off failures of `store_object` roll back**, the four starting cases
    (every store in which p is unbound; c = digest of the data): a one-off failure
    at each fault site of the fault-free run leaves the call successful, or raised
    with everything released, p unbound, list texts well formed, no object added
    other than the data at its own address, and the plan spent -/
theorem store_one_off_failure_rolls_back (st : Store) (log : List Eff) (p : Str) (t : Tok)
    (hp : checkStringOk p = true) (hok : OkDigests o) (h1 : st.pidRefs.get (o.hId p) = none) :
    (st.cidRefs.get (o.dig cfg.alg t) = none → st.objs.get (o.dig cfg.alg t) = none →
      ∀ s ∈ storeSites_absent_new cfg o p t, ∃ r w', (storeObject cfg o (.str p) (.ok t) .none .none .none .none).run
        (planned st log s.1 s.2.1 s.2.2) = (r, w') ∧ RolledBackStore cfg o p t st r w') ∧
    (∀ x, st.cidRefs.get (o.dig cfg.alg t) = none → st.objs.get (o.dig cfg.alg t) = some x →
      ∀ s ∈ storeSites_present_new cfg o p t, ∃ r w', (storeObject cfg o (.str p) (.ok t) .none .none .none .none).run
        (planned st log s.1 s.2.1 s.2.2) = (r, w') ∧ RolledBackStore cfg o p t st r w') ∧
    (∀ ls, st.cidRefs.get (o.dig cfg.alg t) = some (renderLines ls) → (∀ l ∈ ls, hasSpace l = false) → p ∉ ls → ls ≠ [] →
      st.objs.get (o.dig cfg.alg t) = none →
      ∀ s ∈ storeSites_absent_app cfg o p t, ∃ r w', (storeObject cfg o (.str p) (.ok t) .none .none .none .none).run
        (planned st log s.1 s.2.1 s.2.2) = (r, w') ∧ RolledBackStore cfg o p t st r w') ∧
    (∀ ls x, st.cidRefs.get (o.dig cfg.alg t) = some (renderLines ls) → (∀ l ∈ ls, hasSpace l = false) → p ∉ ls → ls ≠ [] →
      st.objs.get (o.dig cfg.alg t) = some x →
      ∀ s ∈ storeSites_present_app cfg o p t, ∃ r w', (storeObject cfg o (.str p) (.ok t) .none .none .none .none).run
        (planned st log s.1 s.2.1 s.2.2) = (r, w') ∧ RolledBackStore cfg o p t st r w') :=
  ⟨fun h2 ho => store_absent_new_all cfg o st log p t hp hok h1 h2 ho,
   fun x h2 ho => store_present_new_all cfg o st log p t x hp hok h1 h2 ho,
   fun ls h2 hls hnot hne ho => store_absent_app_all cfg o st log p t ls hp hok h1 h2 hls hnot hne ho,
   fun ls x h2 hls hnot hne ho => store_present_app_all cfg o st log p t x ls hp hok h1 h2 hls hnot hne ho⟩

/-- the four site lists are exactly the fault sites of the fault-free runs -/
theorem store_fault_sites_complete (st : Store) (log : List Eff) (p : Str) (t : Tok)
    (hp : checkStringOk p = true) (hok : OkDigests o) (h1 : st.pidRefs.get (o.hId p) = none) :
    (st.cidRefs.get (o.dig cfg.alg t) = none → st.objs.get (o.dig cfg.alg t) = none →
      sitesOfRun (storeObject cfg o (.str p) (.ok t) .none .none .none .none) (calm st log) = storeSites_absent_new cfg o p t) ∧
    (∀ x, st.cidRefs.get (o.dig cfg.alg t) = none → st.objs.get (o.dig cfg.alg t) = some x →
      sitesOfRun (storeObject cfg o (.str p) (.ok t) .none .none .none .none) (calm st log) = storeSites_present_new cfg o p t) ∧
    (∀ ls, st.cidRefs.get (o.dig cfg.alg t) = some (renderLines ls) → (∀ l ∈ ls, hasSpace l = false) → p ∉ ls →
      st.objs.get (o.dig cfg.alg t) = none →
      sitesOfRun (storeObject cfg o (.str p) (.ok t) .none .none .none .none) (calm st log) = storeSites_absent_app cfg o p t) ∧
    (∀ ls x, st.cidRefs.get (o.dig cfg.alg t) = some (renderLines ls) → (∀ l ∈ ls, hasSpace l = false) → p ∉ ls →
      st.objs.get (o.dig cfg.alg t) = some x →
      sitesOfRun (storeObject cfg o (.str p) (.ok t) .none .none .none .none) (calm st log) = storeSites_present_app cfg o p t) :=
  ⟨fun h2 ho => store_sites_absent_new_complete cfg o st log p t hp hok h1 h2 ho,
   fun x h2 ho => store_sites_present_new_complete cfg o st log p t x hp hok h1 h2 ho,
   fun ls h2 hls hnot ho => store_sites_absent_app_complete cfg o st log p t ls hp hok h1 h2 hls hnot ho,
   fun ls x h2 hls hnot ho => store_sites_present_app_complete cfg o st log p t x ls hp hok h1 h2 hls hnot ho⟩

/-- **… and the pid can be stored again at once**: after a rolled-back failure,
    the same `store_object` call made again returns normally, and
    `retrieve_object` returns the data -/
theorem store_retry_at_once_succeeds (st : Store) (p : Str) (t : Tok) (r : Except Exc Val) (w' : World)
    (hp : checkStringOk p = true) (hok : OkDigests o) (hnl : AllNl st.cidRefs)
    (hfree : st.objs.get (o.dig cfg.alg t) = none ∨ st.objs.get (o.dig cfg.alg t) = some t)
    (hrb : RolledBackStore cfg o p t st r w') (herr : ∀ v, r ≠ .ok v) :
    ∃ m w2, (storeObject cfg o (.str p) (.ok t) .none .none .none .none).run w' = (.ok (.objMeta m), w2) ∧
      ((retrieveObject cfg o (.str p)).run { w2 with fault := none }).1 = .ok (.content t) :=
  store_retry_after_rollback cfg o st p t r w' hp hok hnl hfree hrb herr

/-- a one-off plan that has fired never fails another primitive -/
theorem one_off_fires_once (f : Fault) (e : Ev) (hf : f.fired = true) (hp : f.persistent = false) :
    (f.check e).1 = false := by
  unfold Fault.check
  simp [hf, hp]

/-- a plan that has not fired fails nothing that is not addressed to its
    destination with its kind -/
theorem unrelated_primitives_unaffected (f : Fault) (e : Ev) (hf : f.fired = false)
    (h : ∀ s ∈ e.sites, ¬ (s.1 = f.kind ∧ s.2 = f.target)) : (f.check e).1 = false := by
  unfold Fault.check
  have hmem : ¬ (f.kind, f.target) ∈ e.sites := by
    intro hm
    exact h _ hm ⟨rfl, rfl⟩
  simp [hf, hmem]

/-- a one-off failure of the rename is absorbed: `shutil.move` copies instead,
    and the move still happens (the plan is marked fired) -/
theorem one_off_rename_absorbed (f : Fault) (e : Ev) (hf : f.fired = false) (hk : f.kind = .rename)
    (hp : f.persistent = false) : (f.check e).1 = false := by
  unfold Fault.check
  simp only [hf, Bool.false_eq_true, if_false]
  split
  · split
    · simp [hk, hp]
    · rfl
  · rfl

/-! ### the full statement is false: witness K4 -/

def oW : Oracle :=
  { hId := fun s => 'h' :: s, dig := fun _ t => if t = 1 then "c1".toList else "c2".toList, size := fun _ => 1 }
def cfgW : Config := { depth := 1, width := 1, alg := "sha256".toList, ns := "ns".toList }
/-- empty store, with a persistent failure of opening p's pid reference for reading -/
def wK4 : World :=
  { st := Store.empty,
    fault := some { kind := .openRead, target := .loc (.pidRef "hp".toList), nth := 0, persistent := true } }
def afterFailedTag := (tagObject cfgW oW (.str "p".toList) (.str "c1".toList)).run wK4
def worldForRetry : World := { st := afterFailedTag.2.st, lk := afterFailedTag.2.lk }
def retry := (tagObject cfgW oW (.str "p".toList) (.str "c1".toList)).run worldForRetry

/-- "after a failed tag_object the pid is unbound and can be tagged again at
    once" is false: the call fails with an OSError, the pid reference stays in
    place, nothing is left locked, and the fault-free retry is rejected. -/
theorem full_refuted :
    afterFailedTag.1 = .error .osError ∧
    afterFailedTag.2.st.pidRefs.get "hp".toList = some "c1".toList ∧
    afterFailedTag.2.lk = {} ∧
    retry.1 = .error .hashStoreRefsAlreadyExists := by decide

def wOnce : World :=
  { st := Store.empty,
    fault := some { kind := .openRead, target := .loc (.pidRef "hp".toList), nth := 0, persistent := false } }
def afterOnce := (tagObject cfgW oW (.str "p".toList) (.str "c1".toList)).run wOnce
def retryOnce := (tagObject cfgW oW (.str "p".toList) (.str "c1".toList)).run
  { st := afterOnce.2.st, lk := afterOnce.2.lk }

/-- the one-off variant of the same failure rolls back and the retry succeeds -/
theorem one_off_rolls_back :
    afterOnce.1 = .error .osError ∧ afterOnce.2.st.pidRefs.get "hp".toList = none ∧
    afterOnce.2.lk = {} ∧ retryOnce.1 = .ok .unit := by
  decide

end HS.C13
