/-
  C14 — Store configuration is pinned at creation.
-/
import HSModel.Config
namespace HS.C14

/-- all five keys present with usable values -/
def WellFormed (p : Props) : Prop :=
  p.path ≠ .missing ∧ p.path ≠ .none ∧ p.depth.toInt.isSome ∧ p.width.toInt.isSome ∧
  p.depth ≠ .missing ∧ p.depth ≠ .none ∧ p.width ≠ .missing ∧ p.width ≠ .none ∧
  p.alg ≠ .missing ∧ p.alg ≠ .none ∧ p.ns ≠ .missing ∧ p.ns ≠ .none

theorem chkPresent_ok (v : PropVal) : chkPresent v = .ok () ↔ v ≠ .missing ∧ v ≠ .none := by
  cases v <;> simp [chkPresent]

theorem chkInt_ok (v : PropVal) (d : Int) :
    chkInt v = .ok d ↔ v ≠ .missing ∧ v ≠ .none ∧ v.toInt = some d := by
  cases v <;> simp [chkInt, chkPresent, PropVal.toInt] <;> (split <;> simp_all)

theorem bind_ok {α β : Type} (x : Except Exc α) (f : α → Except Exc β) (b : β) :
    (x >>= f) = .ok b ↔ ∃ a, x = .ok a ∧ f a = .ok b := by
  cases x <;> simp [bind, Except.bind]

theorem validate_eq_ok (p : Props) (d w : Int) :
    validateProps p = .ok (d, w) ↔
      (p.path ≠ .missing ∧ p.path ≠ .none) ∧ (p.depth ≠ .missing ∧ p.depth ≠ .none ∧ p.depth.toInt = some d) ∧
      (p.width ≠ .missing ∧ p.width ≠ .none ∧ p.width.toInt = some w) ∧
      (p.alg ≠ .missing ∧ p.alg ≠ .none) ∧ (p.ns ≠ .missing ∧ p.ns ≠ .none) := by
  unfold validateProps
  simp only [bind_ok, ← chkPresent_ok, ← chkInt_ok]
  constructor
  · rintro ⟨_, h1, d', h2, w', h3, _, h4, _, h5, h6⟩
    simp only [pure, Except.pure, Except.ok.injEq, Prod.mk.injEq] at h6
    obtain ⟨rfl, rfl⟩ := h6
    exact ⟨h1, h2, h3, h4, h5⟩
  · rintro ⟨h1, h2, h3, h4, h5⟩
    exact ⟨(), h1, d, h2, w, h3, (), h4, (), h5, rfl⟩

theorem validate_ok_iff (p : Props) :
    (∃ dw, validateProps p = .ok dw) ↔ WellFormed p := by
  unfold WellFormed
  constructor
  · rintro ⟨⟨d, w⟩, h⟩
    obtain ⟨h1, h2, h3, h4, h5⟩ := (validate_eq_ok p d w).mp h
    simp [h1, h2, h3, h4, h5]
  · intro h
    obtain ⟨h1, h2, h3, h4, h5, h6, h7, h8, h9, h10, h11, h12⟩ := h
    obtain ⟨d, hd⟩ := Option.isSome_iff_exists.mp h3
    obtain ⟨w, hw⟩ := Option.isSome_iff_exists.mp h4
    exact ⟨(d, w), (validate_eq_ok p d w).mpr ⟨⟨h1, h2⟩, ⟨h5, h6, hd⟩, ⟨h7, h8, hw⟩, ⟨h9, h10⟩, ⟨h11, h12⟩⟩⟩

/-- Reopening an existing store succeeds exactly when depth and width (after
    integer coercion), algorithm and namespace equal the stored ones; then
    nothing is written. -/
theorem reopen_iff (yd yw : Int) (ya yn : Str) (p : Props) :
    openStore (.yaml yd yw ya yn) p = .opened ↔
      WellFormed p ∧ p.depth.toInt = some yd ∧ p.width.toInt = some yw ∧
      p.alg.isStr ya = true ∧ p.ns.isStr yn = true := by
  unfold openStore
  constructor
  · intro h
    split at h
    · cases h
    · rename_i d w hv
      have hwf : WellFormed p := (validate_ok_iff p).mp ⟨_, hv⟩
      simp only at h
      split at h; · cases h
      split at h; · cases h
      split at h; · cases h
      split at h; · cases h
      rename_i h1 h2 h3 h4
      have hd : p.depth.toInt = some d ∧ p.width.toInt = some w := by
        have := (validate_eq_ok p d w).mp hv
        exact ⟨this.2.1.2.2, this.2.2.1.2.2⟩
      refine ⟨hwf, ?_, ?_, by simpa using h3, by simpa using h4⟩
      · rw [hd.1]; simp at h1; rw [h1]
      · rw [hd.2]; simp at h2; rw [h2]
  · intro ⟨hwf, hd, hw, ha, hn⟩
    obtain ⟨dw, hv⟩ := (validate_ok_iff p).mpr hwf
    have : dw = (yd, yw) := by
      obtain ⟨d, w⟩ := dw
      have h := (validate_eq_ok p d w).mp hv
      have e1 : some d = some yd := by rw [← h.2.1.2.2, hd]
      have e2 : some w = some yw := by rw [← h.2.2.1.2.2, hw]
      cases e1; cases e2; rfl
    subst this
    rw [hv]
    simp [ha, hn]

/-- every refusal and every reopen writes nothing: a configuration is written
    only when none existed (`created`), so an existing one is never rewritten -/
theorem yaml_never_rewritten (yd yw : Int) (ya yn : Str) (p : Props) :
    ∀ d w a n, openStore (.yaml yd yw ya yn) p ≠ .created d w a n := by
  intro d w a n
  unfold openStore
  split
  · simp
  · simp only
    repeat' split
    all_goals simp

/-- data directories without a configuration file are refused -/
theorem data_without_yaml_refused (p : Props) (h : WellFormed p) :
    openStore (.noYaml true true) p = .refused .runtimeError := by
  obtain ⟨dw, hv⟩ := (validate_ok_iff p).mpr h
  unfold openStore
  rw [hv]
  simp

/-- creation succeeds only with one of the five DataONE algorithm names, and
    records exactly the supplied configuration -/
theorem create_iff (re dd : Bool) (p : Props) (d w : Int) (a : Str) (n : PropVal) :
    openStore (.noYaml re dd) p = .created d w a n ↔
      validateProps p = .ok (d, w) ∧ ¬ (re = true ∧ dd = true) ∧ p.alg.isStr a = true ∧
      a ∈ acceptedStoreAlgs ∧ n = p.ns := by
  unfold openStore
  constructor
  · intro h
    split at h
    · cases h
    · rename_i d' w' hv
      simp only at h
      split at h
      · cases h
      · rename_i hnd
        split at h
        · rename_i a' ai hal
          split at h
          · rename_i hmem
            cases h
            exact ⟨hv, hnd, by simp [PropVal.isStr, hal], hmem, rfl⟩
          · cases h
        · cases h
  · intro ⟨hv, hnd, ha, hmem, hn⟩
    rw [hv]
    simp only
    rw [if_neg hnd]
    cases hal : p.alg <;> simp [PropVal.isStr, hal] at ha
    subst ha
    simp [hmem, hn]

/-- the accepted store algorithms are the five DataONE names (complete table) -/
theorem accepted_table : acceptedStoreAlgs =
    ["MD5".toList, "SHA-1".toList, "SHA-256".toList, "SHA-384".toList, "SHA-512".toList] := by
  decide

/-- integer-like strings: the model's reading of a decimal string -/
theorem pyIntStr_examples :
    pyIntStr "3".toList = some 3 ∧ pyIntStr " 12 ".toList = some 12 ∧ pyIntStr "-4".toList = some (-4) ∧
    pyIntStr "3.0".toList = none ∧ pyIntStr "".toList = none ∧ pyIntStr "x".toList = none := by
  decide

example : WellFormed { path := .str [] none, depth := .int 3, width := .str "2".toList (some 2),
                       alg := .str "SHA-256".toList none, ns := .str "ns".toList none } := by
  simp [WellFormed, PropVal.toInt]

end HS.C14
