/-
  C15 — On-disk layout follows the published HashStore layout for every
  configuration: `_shard` as written (a comprehension of slices, then
  `compact`) is the README's "depth tokens of width characters, then the
  remainder", for every depth, width and string.
-/
import HSModel.Shard
namespace HS.C15

theorem compact_append (a b : List Str) : compact (a ++ b) = compact a ++ compact b := by
  simp [compact]

/-- the i-th slice of `s` is the first slice of `s` with `i*w` characters dropped -/
theorem pySlice_shift (s : Str) (w i : Nat) :
    pySlice s ((i + 1) * w) (w * (i + 1 + 1)) = pySlice (s.drop w) (i * w) (w * (i + 1)) := by
  unfold pySlice
  rw [List.drop_drop]
  have h1 : w + i * w = (i + 1) * w := by rw [Nat.add_mul]; omega
  have h2 : w * (i + 1 + 1) - (i + 1) * w = w * (i + 1) - i * w := by
    rw [Nat.mul_comm w (i + 1 + 1), Nat.mul_comm w (i + 1)]
    rw [Nat.add_mul (i + 1) 1 w, Nat.add_mul i 1 w]
    omega
  rw [h1, h2]

theorem slices_succ (d w : Nat) (s : Str) :
    ((List.range (d + 1)).map fun i => pySlice s (i * w) (w * (i + 1)))
      = s.take w :: ((List.range d).map fun i => pySlice (s.drop w) (i * w) (w * (i + 1))) := by
  rw [List.range_succ_eq_map]
  simp only [List.map_cons, List.map_map]
  congr 1
  · simp [pySlice]
  · apply List.map_congr_left
    intro i _
    simp only [Function.comp]
    exact pySlice_shift s w i

/-- `_shard` = the README layout, for all depth, width (0 included) and strings -/
theorem shardPy_eq_spec (d w : Nat) (s : Str) : shardPy d w s = shardSpec d w s := by
  induction d generalizing s with
  | zero => simp [shardPy, shardSpec]
  | succ d ih =>
    unfold shardPy shardSpec
    rw [slices_succ]
    rw [List.cons_append, ← List.singleton_append, compact_append]
    congr 1
    have := ih (s.drop w)
    unfold shardPy at this
    rw [List.drop_drop] at this
    have h : (d + 1) * w = w + d * w := by rw [Nat.add_mul]; omega
    rw [h]
    exact this

/-- nothing is lost, duplicated or reordered: the tokens concatenate to the digest -/
theorem shard_flatten (d w : Nat) (s : Str) : (shardPy d w s).flatten = s := by
  rw [shardPy_eq_spec]
  induction d generalizing s with
  | zero =>
    simp only [shardSpec, compact]
    by_cases h : s = [] <;> simp [h]
  | succ d ih =>
    simp only [shardSpec, List.flatten_append, ih]
    simp only [compact]
    by_cases h : s.take w = []
    · simp only [h, ne_eq, not_true_eq_false, decide_false, List.filter_cons_of_neg,
        Bool.false_eq_true, not_false_eq_true, List.filter_nil, List.flatten_nil, List.nil_append]
      have : s.take w ++ s.drop w = s := List.take_append_drop w s
      rw [h] at this; simpa using this
    · simp [h]

/-- no empty path component is ever produced -/
theorem shard_nonempty_tokens (d w : Nat) (s : Str) : ∀ t ∈ shardPy d w s, t ≠ [] := by
  intro t ht
  simp only [shardPy, compact, List.mem_filter, decide_eq_true_eq] at ht
  exact ht.2

/-- two digests with the same sharded path are the same digest: the layout
    never maps two keys to one location -/
theorem shard_injective (d w : Nat) (s t : Str) (h : shardPy d w s = shardPy d w t) : s = t := by
  rw [← shard_flatten d w s, ← shard_flatten d w t, h]

/-- shape for a proper configuration (`0 < width`, `depth*width < |digest|`):
    exactly `depth` tokens of exactly `width` characters, then a non-empty
    remainder -/
theorem shard_shape (d w : Nat) (s : Str) (hw : 0 < w) (hl : d * w < s.length) :
    shardPy d w s = ((List.range d).map fun i => (s.drop (i * w)).take w) ++ [s.drop (d * w)] ∧
    (∀ i, i < d → ((s.drop (i * w)).take w).length = w) ∧ (s.drop (d * w)) ≠ [] := by
  have hrem : s.drop (d * w) ≠ [] := by
    intro e
    have := congrArg List.length e
    simp at this; omega
  have hlen : ∀ i, i < d → ((s.drop (i * w)).take w).length = w := by
    intro i hi
    simp only [List.length_take, List.length_drop]
    have : (i + 1) * w ≤ d * w := Nat.mul_le_mul_right w hi
    rw [Nat.add_mul] at this
    omega
  refine ⟨?_, hlen, hrem⟩
  unfold shardPy compact
  rw [List.filter_eq_self.mpr]
  · congr 1
    apply List.map_congr_left
    intro i _
    unfold pySlice
    congr 1
    rw [Nat.mul_comm w (i + 1), Nat.add_mul]; omega
  · intro t ht
    rcases List.mem_append.mp ht with ht | ht
    · obtain ⟨i, hi, rfl⟩ := List.mem_map.mp ht
      have hi' : i < d := List.mem_range.mp hi
      have hl' := hlen i hi'
      simp only [decide_eq_true_eq]
      intro e
      unfold pySlice at e
      have h2 : w * (i + 1) - i * w = w := by rw [Nat.mul_comm w (i + 1), Nat.add_mul]; omega
      rw [h2] at e
      rw [e] at hl'; simp at hl'; omega
    · simp only [List.mem_singleton] at ht
      subst ht
      simpa using hrem

/-- the four kinds of permanent file live under their own area directory, at the
    sharded key (object: cid; pid reference: H(pid); cid list: cid; document:
    shard(H(pid)) / H(pid ++ format)) -/
theorem layout (d w : Nat) (c k dir doc : Str) :
    (Loc.obj c).path d w = ["objects".toList] ++ shardPy d w c ∧
    (Loc.pidRef k).path d w = ["refs".toList, "pids".toList] ++ shardPy d w k ∧
    (Loc.cidRef c).path d w = ["refs".toList, "cids".toList] ++ shardPy d w c ∧
    (Loc.mdoc dir doc).path d w = ["metadata".toList] ++ shardPy d w dir ++ [doc] := by
  simp [Loc.path, Area.dir]

/-- distinct keys of one area never share a path -/
theorem path_injective_obj (d w : Nat) (c c' : Str)
    (h : (Loc.obj c).path d w = (Loc.obj c').path d w) : c = c' := by
  simp only [Loc.path, List.append_cancel_left_eq] at h
  exact shard_injective d w c c' h

example : shardPy 3 2 "0d555ed7".toList = ["0d".toList, "55".toList, "5e".toList, "d7".toList] := by
  decide

end HS.C15
