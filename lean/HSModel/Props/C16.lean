/-
  C16 — Multiprocessing mode behaves identically and excludes across processes.
  (`_partial`) The model has ONE program text per call and ONE monitor: the
  synchronisation mode only selects which Python objects implement the monitor
  (threading.Condition + list, or multiprocessing.Condition + Manager().list()).
  Hence every theorem about calls (C01–C15, C17–C19) and about the monitor (C07,
  C08, C12) is a theorem about both modes; what is mode-specific in the code — that
  the `_mp` primitives exist when the mode is selected (defect D4, repaired), and
  that every synchronised section is duplicated faithfully — is established by the
  correspondence runs of this check: sequential histories on a store constructed
  with USE_MULTIPROCESSING=True, and the C07 / C12 menus under the controlled
  scheduler through the `_mp` attributes. Trusted, not modelled: that
  multiprocessing.Condition and Manager().list() give forked processes what
  threading.Condition and a list give threads.
-/
import HSModel.Props.C08
import HSModel.Props.C07
namespace HS.C16

/-- the synchronisation mode -/
inductive Mode | threading | multiprocessing
  deriving DecidableEq, Repr

/-- the program of a call does not depend on the mode (one program text) -/
def progIn (_ : Mode) (cfg : Config) (o : Oracle) (c : Call) : PE Val := c.prog cfg o

theorem mode_irrelevant (cfg : Config) (o : Oracle) (c : Call) (w : World) :
    (progIn .multiprocessing cfg o c).run w = (progIn .threading cfg o c).run w := rfl

/-- whole histories: same results, same final state in both modes -/
theorem histories_mode_irrelevant (cfg : Config) (o : Oracle) (cs : List Call) (w : World) :
    cs.foldl (fun w c => ((progIn .multiprocessing cfg o c).run w).2) w
      = cs.foldl (fun w c => ((progIn .threading cfg o c).run w).2) w := rfl

/-- in either mode a call run from free lists leaves them free, under any fault plan -/
theorem nothing_left_locked (m : Mode) (cfg : Config) (o : Oracle) (c : Call) (w : World) (hw : w.lk = {}) :
    ((progIn m cfg o c).run w).2.lk = {} := C08.no_identifier_left_locked cfg o c w hw

/-- among any number of workers (threads or forked processes that implement the
    monitor): mutual exclusion and deadlock freedom -/
theorem exclusion_and_progress (s : Sys) (r : Reach Sys.initial s) :
    Mutex s ∧ ((∃ i, (s i).st ≠ .done) → ∃ i, (s i).enabled) :=
  ⟨C08.mutual_exclusion s r, C08.deadlock_free s r⟩

end HS.C16
