/-
  C17 — Rejected and read-only calls change nothing.
-/
import HSModel.Proofs.StepLemmas
import HSModel.Proofs.RefineAll
import HSModel.Proofs.Inert
import HSModel.Proofs.Rejected
namespace HS.C17
open Abs
variable (cfg : Config) (o : Oracle)

/-- error classes that are raised only after something may have been written
    (a rejected tagging after the object was stored, a failed validation) -/
def Late : Exc → Prop
  | .hashStoreRefsAlreadyExists | .pidRefsAlreadyExists
  | .nonMatchingObjSize | .nonMatchingChecksum => True
  | _ => False

theorem tag_error_late (a : Abs) (p c : Str) (e : Exc) (h : (a.tag p c).1 = .error e) : Late e := by
  unfold tag at h
  split at h
  · split at h <;> (cases h; trivial)
  · cases h

theorem map_error {α β : Type} {r : Except Exc α} {f : α → β} {e : Exc}
    (h : r.map f = .error e) : r = .error e := by
  cases r <;> simp_all [Except.map]

theorem storeData_rejected (a : Abs) (data : DataArg) (e : Exc)
    (h : (storeData cfg o a data).1 = .error e) : (storeData cfg o a data).2 = a := by
  unfold storeData at h ⊢
  split
  · rfl
  · rename_i t ht; rw [ht] at h; cases h

theorem storeObj_rejected (a : Abs) (pid : SArg) (data : DataArg) (add cks ca : SArg) (sz : IArg)
    (e : Exc) (h : (storeObj cfg o a pid data add cks ca sz).1 = .error e) (hl : ¬ Late e) :
    (storeObj cfg o a pid data add cks ca sz).2 = a := by
  unfold storeObj at h ⊢
  split
  · rfl
  · rename_i hargs
    rw [hargs] at h
    try simp only [] at h ⊢
    split
    · rfl
    · rename_i hv
      rw [hv] at h
      exact absurd (tag_error_late _ _ _ _ (map_error h)) hl

theorem tagObj_rejected (a : Abs) (pid cid : SArg) (e : Exc)
    (h : (tagObj a pid cid).1 = .error e) (hl : ¬ Late e) : (tagObj a pid cid).2 = a := by
  unfold tagObj at h ⊢
  split
  · rfl
  · rename_i hargs
    rw [hargs] at h
    exact absurd (tag_error_late _ _ _ _ (map_error h)) hl

theorem orElse_error (r : Except Exc Unit) (e e' : Exc) (h : orElse r e = .error e') :
    r = .error e' ∨ (e' = e) := by
  cases r <;> simp_all [orElse]

theorem deleteOnly_error (a : Abs) (c : Str) (e : Exc) (h : (a.deleteOnly c).1 = .error e) :
    (a.deleteOnly c).2 = a := by
  unfold deleteOnly at h ⊢
  split
  · rfl
  · split
    · rename_i h1 h2; simp [h1, h2] at h
    · rfl

theorem divObj_rejected (a : Abs) (om : Option ObjMeta) (cks ca : SArg) (sz : IArg) (e : Exc)
    (h : (divObj cfg o a om cks ca sz).1 = .error e) (hl : ¬ Late e) :
    (divObj cfg o a om cks ca sz).2 = a := by
  unfold divObj at h ⊢
  split
  · rfl
  · rename_i c al hargs
    rw [hargs] at h
    split
    · rfl
    · rename_i m
      simp only [] at h ⊢
      split
      · rfl
      · rename_i a' hclean
        rw [hclean] at h
        simp only [] at h ⊢
        by_cases hs : sizeMismatch sz m.size = true
        · rw [if_pos hs] at h ⊢
          rcases orElse_error _ _ _ h with h' | h'
          · exact deleteOnly_error _ _ _ h'
          · subst h'; exact absurd trivial hl
        · rw [if_neg hs] at h ⊢
          split
          · rfl
          · rename_i d hd
            rw [hd] at h
            simp only [] at h ⊢
            by_cases hne : d ≠ lower c
            · rw [if_pos hne] at h ⊢
              rcases orElse_error _ _ _ h with h' | h'
              · exact deleteOnly_error _ _ _ h'
              · subst h'; exact absurd trivial hl
            · rw [if_neg hne]

/-- A call that ends with any error other than the four "late" classes — i.e.
    every argument rejection (None / empty / whitespace identifiers, unsupported
    algorithm, bad size, unpaired checksum, bad data) and every unknown-pid or
    not-found outcome — leaves the specification state exactly as it was. -/
theorem rejected_no_change (a : Abs) (call : Call) (e : Exc)
    (h : (step cfg o a call).1 = .error e) (hl : ¬ Late e) : (step cfg o a call).2 = a := by
  cases call with
  | storeObject pid data add cks ca sz =>
    simp only [step] at h ⊢
    split at h
    · exact storeData_rejected cfg o a data e h
    · exact storeObj_rejected cfg o a pid data add cks ca sz e h hl
  | tagObject pid cid => exact tagObj_rejected a pid cid e h hl
  | deleteIfInvalid om cks ca sz => exact divObj_rejected cfg o a om cks ca sz e h hl
  | storeMetadata pid data fmt =>
    simp only [step, storeMeta] at h ⊢
    repeat' split
    all_goals first | rfl | simp_all
  | retrieveObject pid =>
    simp only [step, retrieveObj]
    repeat' split
    all_goals rfl
  | retrieveMetadata pid fmt =>
    simp only [step, retrieveMeta]
    repeat' split
    all_goals rfl
  | deleteObject pid =>
    simp only [step, deleteObj] at h ⊢
    repeat' split
    all_goals first | rfl | simp_all
  | deleteMetadata pid fmt =>
    simp only [step, deleteMeta] at h ⊢
    repeat' split
    all_goals first | rfl | simp_all
  | getHexDigest pid alg =>
    simp only [step, hexDigest]
    repeat' split
    all_goals rfl

/-- `retrieve_object`, `retrieve_metadata` and `get_hex_digest` never change the
    state, whether they succeed or not -/
theorem readonly_no_change (a : Abs) (pid x : SArg) :
    (step cfg o a (.retrieveObject pid)).2 = a ∧
    (step cfg o a (.retrieveMetadata pid x)).2 = a ∧
    (step cfg o a (.getHexDigest pid x)).2 = a := by
  refine ⟨?_, ?_, ?_⟩
  · simp only [step, retrieveObj]; repeat' split
    all_goals rfl
  · simp only [step, retrieveMeta]; repeat' split
    all_goals rfl
  · simp only [step, hexDigest]; repeat' split
    all_goals rfl

/-- which class each kind of bad identifier yields (`_check_string`) -/
theorem checkString_classes :
    checkString .none = .error .valueError ∧ checkString (.str []) = .error .valueError ∧
    (∀ s, hasSpace s = true → checkString (.str s) = .error .valueError) ∧
    (∀ s, checkStringOk s = true → checkString (.str s) = .ok s) := by
  refine ⟨rfl, rfl, ?_, ?_⟩
  · intro s hs
    simp [checkString, checkStringOk, hs]
  · intro s hs
    simp [checkString, hs]

/-- sizes: non-integers are a TypeError, integers below 1 a ValueError -/
theorem checkInteger_classes (i : Int) :
    checkInteger .other = .error .typeError ∧
    (i < 1 → checkInteger (.int i) = .error .valueError) ∧
    (1 ≤ i → checkInteger (.int i) = .ok ()) ∧ checkInteger .none = .ok () := by
  refine ⟨rfl, ?_, ?_, rfl⟩
  · intro h; simp [checkInteger, h]
  · intro h; simp [checkInteger]; omega

/-- a checksum without its algorithm, or the reverse, is a ValueError -/
theorem unpaired_checksum (alg : Str) (add : SArg) (c a : Str) (hadd : add = .none) :
    checkArgAlgorithmsAndChecksum alg add (.str c) .none = .error .valueError ∧
    (checkArgAlgorithmsAndChecksum alg add .none (.str a) = .error .valueError) := by
  subst hadd
  constructor
  · simp [checkArgAlgorithmsAndChecksum, checkString]
  · simp [checkArgAlgorithmsAndChecksum, checkString]

example : ¬ Late .valueError ∧ ¬ Late .unsupportedAlgorithm ∧ ¬ Late .pidRefsDoesNotExist := by
  simp [Late]


/-- **concrete**: when the concrete run of any call returns an argument error
    (any error class that is not raised after a write), the store it leaves holds
    the same abstract state as before — same bindings, objects and documents, no
    temp file, indexes still exact -/
theorem concrete_rejected_no_change (c : Call) (st : Store) (log : List Eff) (a : Abs) (hs : Sim o st a)
    (ho : GoodOracle o) (hc : CidArgPlain c) (e : Exc)
    (h : ((c.prog cfg o).run (calm st log)).1 = .error e) (hl : ¬ Late e) :
    Sim o ((c.prog cfg o).run (calm st log)).2.st a := by
  obtain ⟨w', hrun, _, _, hs'⟩ := refines_step cfg o c st log a hs ho hc
  rw [hrun] at h ⊢
  rw [rejected_no_change cfg o a c e h hl] at hs'
  exact hs'

/-- **concrete**: the three read-only calls leave the world exactly as it was -/
theorem concrete_readonly_no_change (st : Store) (log : List Eff) (a : Abs) (hs : Sim o st a) (ho : GoodOracle o)
    (pid x : SArg) :
    ((retrieveObject cfg o pid).run (calm st log)).2 = calm st log ∧
    ((retrieveMetadata cfg o pid x).run (calm st log)).2 = calm st log ∧
    ((getHexDigest cfg o pid x).run (calm st log)).2 = calm st log := by
  refine ⟨?_, ?_, ?_⟩
  · rw [(retrieve_refines cfg o st log a pid hs ho.inj).1]
  · rw [(rmeta_refines cfg o st log a pid x hs).1]
  · rw [(hex_refines cfg o st log a pid x hs ho.inj).1]

/-- **Read-only calls change nothing, however they interleave.** Any number of threads running
    `retrieve_object`, `retrieve_metadata` and `get_hex_digest` with any arguments, from any world
    (any fault plan), every schedule, every granularity: after every step the directory and the four
    lock lists are exactly as at the start. -/
theorem readers_change_nothing_under_every_interleaving (calls : List Call) (hc : ∀ c ∈ calls, ReadOnly c)
    (w0 : World) (fuel : Nat) (sched : List Nat) (n : Nat) :
    let cf := (runSchedule fuel { w := w0, ts := calls.map (fun c => TState.fresh (c.prog cfg o)) } sched n).1
    cf.w.st = w0.st ∧ cf.w.lk = w0.lk := by
  intro cf
  have h0 : SafeConf Inert (fun _ _ => True) (fun w => w.st = w0.st ∧ w.lk = w0.lk) (fun _ _ => True)
      { w := w0, ts := calls.map (fun c => TState.fresh (c.prog cfg o)) } := by
    refine ⟨⟨rfl, rfl⟩, ?_⟩
    intro i t hi
    simp only at hi
    rw [List.getElem?_map] at hi
    cases hci : calls[i]? with
    | none => rw [hci] at hi; cases hi
    | some c =>
      rw [hci] at hi; cases hi
      exact Prog.safe_of_allEv _ (readOnly_inert cfg o c (hc c (List.mem_of_getElem? hci)))
  exact (safe_schedule (inert_preserved w0.st w0.lk) (fun _ _ _ => trivial) _ fuel sched _ n h0).1


/-- **A call rejected by its argument checks touches nothing, in every semantics.** `argChecks c` are
    the pure checks the call makes first (identifiers None / empty / white space / wrong type, data of
    an unsupported type or an empty path, sizes that are not positive integers, a checksum without
    its algorithm or the reverse, unsupported algorithm names for `store_object`, `get_hex_digest` and
    `delete_if_invalid_object`, a missing ObjectMetadata). If one of them fails the program is `return error` — no primitive is issued: the
    sequential run from ANY world under ANY fault plan returns that error and leaves directory, lock
    lists, plan and log as they were; so does every crash prefix; and as a thread among others the call
    returns that error at its first step and changes nothing. -/
theorem rejected_changes_nothing_in_every_semantics (c : Call) (e : Exc) (h : firstErr (argChecks cfg c) = some e) :
    (∀ w : World, (c.prog cfg o : Prog (Except Exc Val)).run w = (.error e, w)) ∧
    (∀ (w : World) (n : Nat), Prog.crashAt n (c.prog cfg o : Prog (Except Exc Val)) w = (some (.error e), w)) ∧
    (∀ (w : World) (fuel : Nat), (TState.fresh (c.prog cfg o)).step (fuel + 1) w = (.finished (.error e), w)) :=
  rejected_changes_nothing cfg o c e h

/-- the hypothesis is met by, e.g., a pid with white space, a `None` cid, a non-positive size -/
example : firstErr (argChecks cfg (.tagObject (.str "a b".toList) (.str "c".toList))) = some .valueError := by
  simp only [argChecks]; decide
example : firstErr (argChecks cfg (.getHexDigest (.str "p".toList) (.str "md2".toList))) = some .unsupportedAlgorithm := by
  simp only [argChecks]; decide

end HS.C17
