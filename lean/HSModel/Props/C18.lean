/-
  C18 — Identifiers are opaque: arbitrary pid / format strings never alias or
  escape. (i) the reference-list text is handled line-exactly, so a pid that is
  a prefix, suffix or case variant of another is a different line; (ii) every
  path is built from hashes only; (iii) a call addressed to one pid leaves
  every other pid's binding and documents alone (frame theorem on the
  specification); (iv) distinct pids have distinct locations unless the store
  algorithm collides on them.
-/
import HSModel.Proofs.TextLemmas
import HSModel.Proofs.StepLemmas
import HSModel.Props.C15
import HSModel.Props.C10
namespace HS.C18
open Abs
variable (cfg : Config) (o : Oracle)

/-- membership in a reference list is whole-line equality -/
theorem line_exact_membership (p : Str) (ls : List Str) (h : ∀ l ∈ ls, hasSpace l = false) :
    inRefs p (renderLines ls) = true ↔ p ∈ ls := by
  rw [inRefs_render p ls h]
  simp

/-- removing `p` removes every line equal to `p` and nothing else: any other
    identifier — a prefix, a suffix, a case variant — keeps its membership -/
theorem remove_is_line_exact (p q : Str) (ls : List Str) (h : ∀ l ∈ ls, hasSpace l = false)
    (hpq : q ≠ p) :
    inRefs p (removeLines p (renderLines ls)) = false ∧
    inRefs q (removeLines p (renderLines ls)) = inRefs q (renderLines ls) := by
  have hf : ∀ l ∈ ls.filter (fun l => l ≠ p), hasSpace l = false :=
    fun l hl => h l (List.mem_filter.mp hl).1
  rw [removeLines_render p ls h, inRefs_render p _ hf, inRefs_render q _ hf, inRefs_render q ls h]
  constructor
  · simp
  · cases hq : ls.contains q
    · rw [List.contains_eq_mem, decide_eq_false_iff_not] at hq
      simp only [List.contains_eq_mem, decide_eq_false_iff_not, List.mem_filter, not_and]
      intro hm; exact absurd hm hq
    · rw [List.contains_eq_mem, decide_eq_true_eq] at hq
      simp only [List.contains_eq_mem, decide_eq_true_eq, List.mem_filter]
      exact ⟨hq, by simpa using hpq⟩

/-- appending `p` adds exactly `p` -/
theorem append_is_line_exact (p q : Str) (ls : List Str) (h : ∀ l ∈ ls, hasSpace l = false)
    (hp : hasSpace p = false) (hpq : q ≠ p) :
    inRefs p (renderLines ls ++ (p ++ ['\n'])) = true ∧
    inRefs q (renderLines ls ++ (p ++ ['\n'])) = inRefs q (renderLines ls) := by
  have hf : ∀ l ∈ ls ++ [p], hasSpace l = false := by
    intro l hl
    rcases List.mem_append.mp hl with hl | hl
    · exact h l hl
    · simp at hl; subst hl; exact hp
  rw [renderLines_snoc, inRefs_render p _ hf, inRefs_render q _ hf, inRefs_render q ls h]
  constructor
  · simp
  · simp [hpq]

/-- identifiers accepted by the checker contain no whitespace, hence no line
    break: a pid can never span or split a line -/
theorem accepted_ids_have_no_space (s p : Str) (h : checkString (.str s) = .ok p) :
    p = s ∧ hasSpace p = false ∧ p ≠ [] := by
  have hs := checkString_str h
  subst hs
  simp only [checkString] at h
  split at h
  · rename_i hok
    exact ⟨rfl, ((checkStringOk_iff p).mp hok).2, ((checkStringOk_iff p).mp hok).1⟩
  · cases h

/-- every path component below an area directory is a non-empty piece of the
    key, and consists of lower-case hex digits when the key does: no separator,
    no "." or "..", nothing outside the store root -/
theorem path_tokens_from_key (d w : Nat) (k : Str) (hk : IsLowerHexStr k) :
    ∀ t ∈ shardPy d w k, t ≠ [] ∧ IsLowerHexStr t := by
  intro t ht
  refine ⟨C15.shard_nonempty_tokens d w k t ht, ?_⟩
  intro c hc
  apply hk
  rw [← C15.shard_flatten d w k]
  exact List.mem_flatten.mpr ⟨t, ht, hc⟩

/-- distinct pids have distinct reference locations and distinct metadata
    directories, unless the store algorithm collides on them -/
theorem distinct_pids_distinct_locs (U : List Str) (hnc : NoColl o.hId U) (p q : Str)
    (hp : p ∈ U) (hq : q ∈ U) (hpq : p ≠ q) (f g : Str) :
    Loc.pidRef (o.hId p) ≠ Loc.pidRef (o.hId q) ∧
    Loc.mdoc (o.hId p) (o.hId (p ++ f)) ≠ Loc.mdoc (o.hId q) (o.hId (q ++ g)) := by
  constructor
  · intro e
    exact hpq (hnc p hp q hq (Loc.pidRef.inj e))
  · intro e
    exact hpq (hnc p hp q hq (Loc.mdoc.inj e).1)

theorem deleteObj_frame (a : Abs) (pid : SArg) (q g : Str) (hq : pid ≠ .str q) :
    (deleteObj a pid).2.bind.get q = a.bind.get q ∧
    (deleteObj a pid).2.docs.get (q, g) = a.docs.get (q, g) := by
  unfold deleteObj
  split
  · exact ⟨rfl, rfl⟩
  · rename_i p hp
    have hpq : p ≠ q := by intro e; subst e; exact hq (checkString_ok hp)
    split
    · exact ⟨rfl, rfl⟩
    · refine ⟨FMap.get_del_ne _ hpq, ?_⟩
      simp [dropDocs_get, Ne.symm hpq]

/-- Frame: a call addressed to another identifier (or to none) leaves `q`'s
    binding and every document of `q` exactly as they were — whatever strings
    the identifiers are. -/
theorem frame (a : Abs) (call : Call) (q g : Str) (hq : call.pidStr ≠ some q) :
    (step cfg o a call).2.bind.get q = a.bind.get q ∧
    (step cfg o a call).2.docs.get (q, g) = a.docs.get (q, g) := by
  cases call with
  | storeObject pid data add cks ca sz =>
    have hp : pid ≠ .str q := by intro e; subst e; exact hq rfl
    simp only [step]
    split
    · exact ⟨by rw [storeData_bind], by rw [storeData_docs]⟩
    · exact ⟨storeObj_bind_other cfg o a pid data add cks ca sz q hp, by rw [storeObj_docs]⟩
  | tagObject pid cid =>
    have hp : pid ≠ .str q := by intro e; subst e; exact hq rfl
    exact ⟨tagObj_bind_other a pid cid q hp, by simp only [step]; rw [tagObj_docs]⟩
  | deleteIfInvalid om cks ca sz =>
    exact ⟨by simp only [step]; rw [divObj_bind], by simp only [step]; rw [divObj_docs]⟩
  | storeMetadata pid data fmt =>
    have hp : pid ≠ .str q := by intro e; subst e; exact hq rfl
    simp only [step, storeMeta]
    split
    · exact ⟨rfl, rfl⟩
    · rename_i p f hargs
      simp only [bind_eq_ok, pure_eq_ok] at hargs
      obtain ⟨p', hp', _, _, f', _, hh⟩ := hargs
      cases hh
      have hpq : p ≠ q := by intro e; subst e; exact hp (checkString_ok hp')
      split
      · exact ⟨rfl, rfl⟩
      · refine ⟨rfl, ?_⟩
        apply FMap.get_set_ne
        intro e; exact hpq (Prod.mk.inj e).1
  | retrieveObject pid =>
    simp only [step, retrieveObj]; repeat' split
    all_goals exact ⟨rfl, rfl⟩
  | retrieveMetadata pid fmt =>
    simp only [step, retrieveMeta]; repeat' split
    all_goals exact ⟨rfl, rfl⟩
  | deleteObject pid =>
    have hp : pid ≠ .str q := by intro e; subst e; exact hq rfl
    exact deleteObj_frame a pid q g hp
  | deleteMetadata pid fmt =>
    have hp : pid ≠ .str q := by intro e; subst e; exact hq rfl
    simp only [step, deleteMeta]
    split
    · exact ⟨rfl, rfl⟩
    · rename_i p f hargs
      have hpq : p ≠ q := by intro e; subst e; exact hp (metaArgs_pid cfg hargs)
      split
      · refine ⟨rfl, ?_⟩
        simp [dropDocs_get, Ne.symm hpq]
      · refine ⟨rfl, ?_⟩
        apply FMap.get_del_ne
        intro e; exact hpq (Prod.mk.inj e).1
  | getHexDigest pid alg =>
    simp only [step, hexDigest]; repeat' split
    all_goals exact ⟨rfl, rfl⟩

/-- non-vacuity: a prefix and a case variant are different lines -/
example : inRefs "p".toList (renderLines ["pq".toList, "P".toList]) = false ∧
          inRefs "pq".toList (removeLines "p".toList (renderLines ["p".toList, "pq".toList])) = true := by
  decide

/-- **Opaque under concurrency, on the concrete program texts.** Whatever strings the identifiers
    are: if the identifier hash keeps q apart from the pids the calls are addressed to (distinct
    hashes of equal length — what `NoColl` gives for distinct strings), then any number of threads
    running any such calls, under every schedule, every granularity and any fault plan, never
    change q's pid reference or any of q's metadata documents — at no step. -/
theorem other_identifiers_untouched_under_every_interleaving (cfg : Config) (o : Oracle) (calls : List Call)
    (q : Str)
    (h : ∀ c ∈ calls, ∀ p, c.pidStr = some p → o.hId q ≠ o.hId p ∧ (o.hId q).length = (o.hId p).length)
    (w0 : World) (fuel : Nat) (sched : List Nat) (n : Nat) :
    C10.SameFor (o.hId q) w0.st
      (runSchedule fuel { w := w0, ts := calls.map (fun c => TState.fresh (c.prog cfg o)) } sched n).1.w.st :=
  C10.other_pids_untouched_under_every_interleaving cfg o calls q (C10.foreign_of_calls o calls q h) w0 fuel sched n

end HS.C18
