/-
  C19 — The two documented ways of storing an object converge.
  One call:    store_object(pid, data, checksum, checksum_algorithm, size)
  Three calls: store_object(data); delete_if_invalid_object(meta, …); tag_object(pid, meta.cid)
-/
import HSModel.Proofs.Converge
namespace HS.C19
open Abs
variable (cfg : Config) (o : Oracle)

/-- the digest both procedures end up comparing the checksum with is the true
    digest of the content under the named algorithm -/
theorem usedDigest_true (t : Tok) (add cs : Option Str) (a' : Str) :
    digestFor (objMetaOf cfg o t add cs).digests (fun x => o.dig x t) a' = o.dig a' t := by
  simp only [digestFor, objMetaOf, lookupDigest_map]
  split <;> simp_all

/-- Without validation data: storing with a pid in one call, and storing the
    data then tagging it, end in the same state; the one call fails exactly when
    the tagging fails, with the same error; both report the same cid, size and
    default digests. -/
theorem converge_absent (a : Abs) (p : Str) (t : Tok) (hp : checkStringOk p = true)
    (hcid : checkStringOk (o.dig cfg.alg t) = true) :
    let one := step cfg o a (.storeObject (.str p) (.ok t) .none .none .none .none)
    let s1 := step cfg o a (.storeObject .none (.ok t) .none .none .none .none)
    let s3 := step cfg o s1.2 (.tagObject (.str p) (.str (o.dig cfg.alg t)))
    one.2 = s3.2 ∧
    s1.1 = .ok (.objMeta (objMetaOf cfg o t none none)) ∧
    one.1 = s3.1.map (fun _ => .objMeta (objMetaOf cfg o t none none)) := by
  have hargs : storeArgs cfg (.str p) (.ok t) .none .none .none .none = .ok (p, none, none, t) := by
    simp [storeArgs, checkString, hp, checkArgData, checkInteger, checkArgAlgorithmsAndChecksum,
      openStream]
  have hv : (verdict (objMetaOf cfg o t none none).digests (fun x => o.dig x t)
      (objMetaOf cfg o t none none).size .none (sArgStr .none) none).exc = none := by
    simp [verdict, sizeMismatch, sArgStr, Verdict.exc]
  simp only [step, storeObj, storeData, hargs, hv, checkArgData, openStream, ok_bind, tagObj,
    checkString, hp, hcid, if_true, pure_ok]
  refine ⟨by trivial, by trivial, ?_⟩
  have hcid' : (objMetaOf cfg o t none none).cid = o.dig cfg.alg t := rfl
  simp only [hcid']
  generalize ((a.addObj (o.dig cfg.alg t) t).tag p (o.dig cfg.alg t)).1 = r
  cases r <;> rfl

/-- Both procedures judge alike: the verdict does not depend on which digests
    happened to be pre-computed (the one call has the checksum algorithm's
    digest in its table, the post-hoc validation may have to compute it on
    demand from the stored object) — it is the comparison with the true digest
    either way. -/
theorem verdict_same (t : Tok) (add cs add' cs' : Option Str) (sz : IArg) (c a' : Str) :
    verdict (objMetaOf cfg o t add cs).digests (fun x => o.dig x t) (o.size t) sz (some c) (some a')
      = verdict (objMetaOf cfg o t add' cs').digests (fun x => o.dig x t) (o.size t) sz (some c) (some a') := by
  unfold verdict
  simp only [usedDigest_true]

/-- …and it is exactly "size matches and checksum equals the true digest,
    case-insensitively" -/
theorem verdict_true (t : Tok) (add cs : Option Str) (sz : IArg) (c a' : Str) :
    verdict (objMetaOf cfg o t add cs).digests (fun x => o.dig x t) (o.size t) sz (some c) (some a')
      = if sizeMismatch sz (o.size t) then .badSize
        else if o.dig a' t ≠ lower c then .badChecksum else .valid := by
  unfold verdict
  simp only [usedDigest_true]

/-- the verdict of the one-call way, spelled out -/
def oneVerdict (t : Tok) (sz : IArg) (c a' : Str) : Verdict :=
  if sizeMismatch sz (o.size t) then .badSize
  else if o.dig a' t ≠ lower c then .badChecksum else .valid

/-- With validation data (checksum, checksum algorithm — default or not — and
    optionally a size): from any state, the one call and the three calls
    (a) when the data is correct end in the same state, the validation step
        reports success, the one call fails exactly when the tagging fails, with
        the same error, and otherwise reports the cid / size / default digests
        of the data-only store;
    (b) when it is incorrect raise the same mismatch error; the one call leaves
        the state as it was; after the three-call way every binding and every
        document is as before (so the pid is not bound by it) and every object
        that was referenced is still there with its content. -/
theorem converge_checked (a : Abs) (p : Str) (t : Tok) (additional : SArg) (add' cs' : Option Str) (c al : Str)
    (sz : IArg)
    (hargs : storeArgs cfg (.str p) (.ok t) additional (.str c) (.str al) sz = .ok (p, add', cs', t))
    (hcid : checkStringOk (o.dig cfg.alg t) = true) (halg : cfg.alg ∈ defaultAlgos)
    (hobj : AddressHolds cfg o a t) :
    ∃ a', cleanAlgorithm al = .ok a' ∧ cs' = some a' ∧
    let one := step cfg o a (.storeObject (.str p) (.ok t) additional (.str c) (.str al) sz)
    let s1 := step cfg o a (.storeObject .none (.ok t) .none .none .none .none)
    let m0 := objMetaOf cfg o t none none
    let s2 := step cfg o s1.2 (.deleteIfInvalid (some m0) (.str c) (.str al) sz)
    let s3 := step cfg o s2.2 (.tagObject (.str p) (.str m0.cid))
    s1.1 = .ok (.objMeta m0) ∧
    (oneVerdict o t sz c a' = .valid →
      s2.1 = .ok .unit ∧ one.2 = s3.2 ∧
      one.1 = s3.1.map (fun _ => .objMeta (objMetaOf cfg o t add' cs'))) ∧
    (∀ e, (oneVerdict o t sz c a').exc = some e →
      one.1 = .error e ∧ one.2 = a ∧ s2.1 = .error e ∧ s2.2.bind = a.bind ∧ s2.2.docs = a.docs ∧
      ∀ c' t', a.referenced c' = true → a.objs.get c' = some t' → s2.2.objs.get c' = some t') := by
  obtain ⟨_, _, hp, hc, hal, hi, a', hcl, hcs⟩ := storeArgs_inv cfg hargs
  refine ⟨a', hcl, hcs, ?_⟩
  subst hcs
  have hv := verdict_true cfg o t add' (some a') sz c a'
  have hd := divDigest_true cfg o a t a' halg hobj
  have hdivargs : divArgs (.str c) (.str al) sz = .ok (c, al) := by
    simp [divArgs, checkString, hc, hal, hi]
  have hcontains : (a.addObj (o.dig cfg.alg t) t).objs.contains (o.dig cfg.alg t) = true := by
    rw [FMap.contains_iff]; exact ⟨t, addObj_get_own cfg o a t hobj⟩
  simp only [step, storeObj, storeData, hargs, checkArgData, openStream, ok_bind, sArgStr]
  have hsz : (objMetaOf cfg o t add' (some a')).size = o.size t := rfl
  have hsz0 : (objMetaOf cfg o t none none).size = o.size t := rfl
  have hcid0 : (objMetaOf cfg o t none none).cid = o.dig cfg.alg t := rfl
  have hcid1 : (objMetaOf cfg o t add' (some a')).cid = o.dig cfg.alg t := rfl
  rw [hsz, hv]
  simp only [divObj, hdivargs, hcl, hsz0, hcid0, hcid1, hd]
  refine ⟨trivial, ?_, ?_⟩
  · intro hval
    unfold oneVerdict at hval
    by_cases h1 : sizeMismatch sz (o.size t) = true
    · simp [h1] at hval
    · by_cases h2 : o.dig a' t = lower c
      · simp only [h1, h2, ne_eq, not_true_eq_false, if_false, Verdict.exc, Bool.false_eq_true]
        simp only [tagObj, checkString, hp, hcid, if_true, ok_bind, pure_ok]
        refine ⟨trivial, trivial, ?_⟩
        generalize ((a.addObj (o.dig cfg.alg t) t).tag p (o.dig cfg.alg t)).1 = r
        cases r <;> rfl
      · simp [h1, h2] at hval
  · intro e he
    have hdel : ((a.addObj (o.dig cfg.alg t) t).deleteOnly (o.dig cfg.alg t)).1 = .ok () := by
      unfold deleteOnly
      split
      · rfl
      · simp
    have hkeep : ∀ c' t', a.referenced c' = true → a.objs.get c' = some t' →
        ((a.addObj (o.dig cfg.alg t) t).deleteOnly (o.dig cfg.alg t)).2.objs.get c' = some t' := by
      intro c' t' hr hg
      have hr' : (a.addObj (o.dig cfg.alg t) t).referenced c' = true := by
        unfold referenced; rw [addObj_bind]; exact hr
      rw [deleteOnly_keeps_referenced _ _ _ hr']
      exact addObj_keeps a _ _ _ _ hg
    unfold oneVerdict at he
    by_cases h1 : sizeMismatch sz (o.size t) = true
    · simp only [h1, if_true, Verdict.exc] at he ⊢
      cases he
      simp only [hdel, orElse, deleteOnly_bind, deleteOnly_docs, addObj_bind, addObj_docs]
      exact ⟨trivial, trivial, trivial, trivial, trivial, hkeep⟩
    · by_cases h2 : o.dig a' t = lower c
      · simp [h1, h2, Verdict.exc] at he
      · simp only [h1, h2, ne_eq, not_false_eq_true, if_true, if_false, Verdict.exc, Bool.false_eq_true] at he ⊢
        cases he
        simp only [hdel, orElse, deleteOnly_bind, deleteOnly_docs, addObj_bind, addObj_docs]
        exact ⟨trivial, trivial, trivial, trivial, trivial, hkeep⟩

/-- The same on the concrete program text (every step of the calls as the model
    executes them on the directory), from any store that simulates an abstract
    state — in particular after any history from the empty store
    (`C05.concrete_refines_spec_history`): with correct validation data the two
    ways end in directories that simulate one and the same abstract state
    (`C05.sim_means` says what that fixes: bindings, lists, objects, documents,
    empty temp areas) and return the results of the specification; with
    incorrect data both raise the same error, the one-call directory still
    simulates the state before, and the three-call directory simulates a state
    with the same bindings and documents in which every referenced object is
    kept. -/
theorem concrete_converge (st : Store) (log : List Eff) (a : Abs) (hs : Sim o st a) (ho : GoodOracle o)
    (p : Str) (t : Tok) (additional : SArg) (add' cs' : Option Str) (c al : Str) (sz : IArg)
    (hargs : storeArgs cfg (.str p) (.ok t) additional (.str c) (.str al) sz = .ok (p, add', cs', t))
    (halg : cfg.alg ∈ defaultAlgos) (hobj : AddressHolds cfg o a t) :
    ∃ a', cleanAlgorithm al = .ok a' ∧
    let m0 := objMetaOf cfg o t none none
    let one : Call := .storeObject (.str p) (.ok t) additional (.str c) (.str al) sz
    let c1 : Call := .storeObject .none (.ok t) .none .none .none .none
    let c2 : Call := .deleteIfInvalid (some m0) (.str c) (.str al) sz
    let c3 : Call := .tagObject (.str p) (.str m0.cid)
    let w := calm st log
    (oneVerdict o t sz c a' = .valid →
      ∃ (x : Abs) (r : Except Exc Val),
        Sim o (runHist cfg o [one] w).2.st x ∧ Sim o (runHist cfg o [c1, c2, c3] w).2.st x ∧
        (runHist cfg o [c1, c2, c3] w).1 = [.ok (.objMeta m0), .ok .unit, r] ∧
        (runHist cfg o [one] w).1 = [r.map fun _ => .objMeta (objMetaOf cfg o t add' cs')]) ∧
    (∀ e, (oneVerdict o t sz c a').exc = some e →
      (runHist cfg o [one] w).1 = [.error e] ∧ Sim o (runHist cfg o [one] w).2.st a ∧
      (runHist cfg o [c1, c2] w).1 = [.ok (.objMeta m0), .error e] ∧
      ∃ x : Abs, Sim o (runHist cfg o [c1, c2] w).2.st x ∧ x.bind = a.bind ∧ x.docs = a.docs ∧
        ∀ c' t', a.referenced c' = true → a.objs.get c' = some t' → x.objs.get c' = some t') := by
  have hcid : checkStringOk (o.dig cfg.alg t) = true := ho.okDigests _ _
  obtain ⟨a', hcl, hcs, hm0, hvalid, hinvalid⟩ := converge_checked cfg o a p t additional add' cs' c al sz hargs hcid halg hobj
  refine ⟨a', hcl, ?_⟩
  intro m0 one c1 c2 c3 w
  have hplain : ∀ x ∈ [c1, c2, c3], CidArgPlain x := by
    intro x hx
    simp only [List.mem_cons, List.not_mem_nil, or_false] at hx
    rcases hx with rfl | rfl | rfl
    · trivial
    · trivial
    · exact ho.plainDigests _ _
  have h1 := refines_history_from cfg o [one] w a rfl rfl hs ho (by intro x hx; simp at hx; subst hx; trivial)
  have h3 := refines_history_from cfg o [c1, c2, c3] w a rfl rfl hs ho hplain
  have h2 := refines_history_from cfg o [c1, c2] w a rfl rfl hs ho
    (fun x hx => hplain x (by simp at hx ⊢; rcases hx with h | h <;> simp [h]))
  refine ⟨?_, ?_⟩
  · intro hv
    obtain ⟨hs2, hst, hres⟩ := hvalid hv
    refine ⟨(specHist cfg o [one] a).2, (step cfg o (step cfg o (step cfg o a c1).2 c2).2 c3).1, h1.2.1, ?_, ?_, ?_⟩
    · have : (specHist cfg o [one] a).2 = (specHist cfg o [c1, c2, c3] a).2 := hst
      rw [this]; exact h3.2.1
    · rw [h3.1]; simp only [specHist]
      rw [hm0, hs2]
    · rw [h1.1]; simp only [specHist]
      rw [hres]
  · intro e he
    obtain ⟨ho1, ho2, hs2, hb, hd, hk⟩ := hinvalid e he
    refine ⟨?_, ?_, ?_, (specHist cfg o [c1, c2] a).2, h2.2.1, hb, hd, hk⟩
    · rw [h1.1]; simp only [specHist]; rw [ho1]
    · have := h1.2.1
      simp only [specHist] at this
      rw [ho2] at this; exact this
    · rw [h2.1]; simp only [specHist]; rw [hm0, hs2]

/-- in every state reached by a history from the empty store, with a
    collision-free content digest, the address of `t` holds `t` or nothing -/
theorem addressHolds_of_history (cs : List Call) (t : Tok)
    (hinj : ∀ t t', o.dig cfg.alg t = o.dig cfg.alg t' → t = t') :
    AddressHolds cfg o (specHist cfg o cs Abs.empty).2 t := by
  intro t' hg
  exact (hinj _ _ (addressed_history cfg o cs (addressed_empty cfg o) _ _ hg)).symm

/-! the hypotheses are satisfiable, in all three verdict classes (tests of the
    statement on literals, not part of the proof) -/
def oS : Oracle :=
  { hId := fun s => s ++ ['0'], dig := fun _ t => List.replicate t 'a' ++ ['0'], size := fun t => t }
def cfgS : Config := { depth := 3, width := 2, alg := "sha256".toList, ns := "ns".toList }

example : storeArgs cfgS (.str "p".toList) (.ok 3) (.str "MD5".toList) (.str "AAA0".toList) (.str "SHA-384".toList) (.int 3)
    = .ok ("p".toList, some "md5".toList, some "sha384".toList, 3) := by decide
example : cfgS.alg ∈ defaultAlgos := by decide
example : oneVerdict oS 3 (.int 3) "AAA0".toList "sha384".toList = .valid := by decide
example : oneVerdict oS 3 (.int 3) "AAb0".toList "sha384".toList = .badChecksum := by decide
example : oneVerdict oS 3 (.int 4) "AAA0".toList "sha384".toList = .badSize := by decide
example (cs : List Call) : AddressHolds cfgS oS (specHist cfgS oS cs Abs.empty).2 3 :=
  addressHolds_of_history cfgS oS cs 3 (by
    intro t t' h
    simp only [oS] at h
    have := congrArg List.length h
    simpa using this)

end HS.C19
