/-
  C19 — The two documented ways of storing an object converge.
  One call:    store_object(pid, data, checksum, checksum_algorithm, size)
  Three calls: store_object(data); delete_if_invalid_object(meta, …); tag_object(pid, meta.cid)
-/
import HSModel.Proofs.StepLemmas
namespace HS.C19
open Abs
variable (cfg : Config) (o : Oracle)

theorem lookupDigest_map (l : List Str) (f : Str → Str) (x : Str) :
    lookupDigest (l.map fun a => (a, f a)) x = if x ∈ l then some (f x) else none := by
  unfold lookupDigest
  induction l with
  | nil => simp
  | cons a r ih =>
    simp only [List.map_cons, List.find?_cons]
    by_cases h : a = x
    · subst h; simp
    · simp only [h, decide_false, List.mem_cons]
      rw [ih]
      have : ¬ x = a := fun e => h e.symm
      simp [this]

/-- the digest both procedures end up comparing the checksum with is the true
    digest of the content under the named algorithm -/
theorem usedDigest_true (t : Tok) (add cs : Option Str) (a' : Str) :
    digestFor (objMetaOf cfg o t add cs).digests (fun x => o.dig x t) a' = o.dig a' t := by
  simp only [digestFor, objMetaOf, lookupDigest_map]
  split <;> simp_all

/-- Without validation data: storing with a pid in one call, and storing the
    data then tagging it, end in the same state; the one call fails exactly when
    the tagging fails, with the same error; both report the same cid, size and
    default digests. -/
theorem converge_absent (a : Abs) (p : Str) (t : Tok) (hp : checkStringOk p = true)
    (hcid : checkStringOk (o.dig cfg.alg t) = true) :
    let one := step cfg o a (.storeObject (.str p) (.ok t) .none .none .none .none)
    let s1 := step cfg o a (.storeObject .none (.ok t) .none .none .none .none)
    let s3 := step cfg o s1.2 (.tagObject (.str p) (.str (o.dig cfg.alg t)))
    one.2 = s3.2 ∧
    s1.1 = .ok (.objMeta (objMetaOf cfg o t none none)) ∧
    one.1 = s3.1.map (fun _ => .objMeta (objMetaOf cfg o t none none)) := by
  have hargs : storeArgs cfg (.str p) (.ok t) .none .none .none .none = .ok (p, none, none, t) := by
    simp [storeArgs, checkString, hp, checkArgData, checkInteger, checkArgAlgorithmsAndChecksum,
      openStream]
  have hv : (verdict (objMetaOf cfg o t none none).digests (fun x => o.dig x t)
      (objMetaOf cfg o t none none).size .none (sArgStr .none) none).exc = none := by
    simp [verdict, sizeMismatch, sArgStr, Verdict.exc]
  simp only [step, storeObj, storeData, hargs, hv, checkArgData, openStream, ok_bind, tagObj,
    checkString, hp, hcid, if_true, pure_ok]
  refine ⟨by trivial, by trivial, ?_⟩
  have hcid' : (objMetaOf cfg o t none none).cid = o.dig cfg.alg t := rfl
  simp only [hcid']
  generalize ((a.addObj (o.dig cfg.alg t) t).tag p (o.dig cfg.alg t)).1 = r
  cases r <;> rfl

/-- Both procedures judge alike: the verdict does not depend on which digests
    happened to be pre-computed (the one call has the checksum algorithm's
    digest in its table, the post-hoc validation may have to compute it on
    demand from the stored object) — it is the comparison with the true digest
    either way. -/
theorem verdict_same (t : Tok) (add cs add' cs' : Option Str) (sz : IArg) (c a' : Str) :
    verdict (objMetaOf cfg o t add cs).digests (fun x => o.dig x t) (o.size t) sz (some c) (some a')
      = verdict (objMetaOf cfg o t add' cs').digests (fun x => o.dig x t) (o.size t) sz (some c) (some a') := by
  unfold verdict
  simp only [usedDigest_true]

/-- …and it is exactly "size matches and checksum equals the true digest,
    case-insensitively" -/
theorem verdict_true (t : Tok) (add cs : Option Str) (sz : IArg) (c a' : Str) :
    verdict (objMetaOf cfg o t add cs).digests (fun x => o.dig x t) (o.size t) sz (some c) (some a')
      = if sizeMismatch sz (o.size t) then .badSize
        else if o.dig a' t ≠ lower c then .badChecksum else .valid := by
  unfold verdict
  simp only [usedDigest_true]

end HS.C19
