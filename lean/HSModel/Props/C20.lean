/-
  C20 — The command-line client is a faithful front end to the API.
-/
import HSModel.Cli
import HSModel.CliTable
import HSModel.Generated
set_option linter.unusedSimpArgs false
namespace HS.C20

def SArg.typed : SArg → Prop
  | .other => False
  | _ => True
def IArg.typed : IArg → Prop
  | .other => False
  | _ => True

/-- every argument of a call has a type the API accepts: identifiers,
    algorithms, checksums, formats are `str` or `None`; the size is `int` or
    `None` -/
def Call.typed : Call → Prop
  | .storeObject p _ a c ca s => SArg.typed p ∧ SArg.typed a ∧ SArg.typed c ∧ SArg.typed ca ∧ IArg.typed s
  | .tagObject p c => SArg.typed p ∧ SArg.typed c
  | .deleteIfInvalid _ c ca s => SArg.typed c ∧ SArg.typed ca ∧ IArg.typed s
  | .storeMetadata p _ f => SArg.typed p ∧ SArg.typed f
  | .retrieveObject p => SArg.typed p
  | .retrieveMetadata p f => SArg.typed p ∧ SArg.typed f
  | .deleteObject p => SArg.typed p
  | .deleteMetadata p f => SArg.typed p ∧ SArg.typed f
  | .getHexDigest p a => SArg.typed p ∧ SArg.typed a

theorem optS_typed (x : Option Str) : SArg.typed (optS x) := by
  cases x <;> simp [optS, SArg.typed]

/-- options reach the API with the types it requires, for every verb and every
    subset of options -/
theorem dispatch_typed (df : Str) (o : CliOpts) (c : Call) (h : dispatch df o = .ok (some c)) :
    Call.typed c := by
  unfold dispatch at h
  simp only at h
  split at h
  · cases h
  all_goals (repeat' split at h)
  all_goals (try cases h)
  all_goals (unfold Call.typed; repeat' constructor)
  all_goals first | trivial | exact optS_typed _

/-- the size option becomes the integer it denotes -/
theorem store_size_converted (df : Str) (o : CliOpts) (p : Str) (d : DataArg) (s : Str) (i : Int)
    (hv : firstVerb o.verbs = some .storeobject) (hp : o.pid = some p) (hd : o.path = some d)
    (hs : o.objSize = some s) (hi : pyIntOfStr s = some i) :
    dispatch df o = .ok (some (.storeObject (.str p) d (optS o.algo) (optS o.checksum)
                                (optS o.checksumAlgo) (.int i))) := by
  unfold dispatch
  simp [hv, hp, hd, hs, hi]

/-- verb × options ↦ API call: the same call as the API user would write, with
    the omitted format replaced by the store's default namespace -/
theorem dispatch_table (df : Str) (o : CliOpts) (p : Str) (hp : o.pid = some p) :
    (firstVerb o.verbs = some .retrieveobject → dispatch df o = .ok (some (.retrieveObject (.str p)))) ∧
    (firstVerb o.verbs = some .deleteobject → dispatch df o = .ok (some (.deleteObject (.str p)))) ∧
    (firstVerb o.verbs = some .retrievemetadata →
        dispatch df o = .ok (some (.retrieveMetadata (.str p) (.str (o.formatid.getD df))))) ∧
    (firstVerb o.verbs = some .deletemetadata →
        dispatch df o = .ok (some (.deleteMetadata (.str p) (.str (o.formatid.getD df))))) ∧
    (∀ a, firstVerb o.verbs = some .getchecksum → o.algo = some a →
        dispatch df o = .ok (some (.getHexDigest (.str p) (.str a)))) ∧
    (∀ d, firstVerb o.verbs = some .storemetadata → o.path = some d →
        dispatch df o = .ok (some (.storeMetadata (.str p) d (.str (o.formatid.getD df))))) := by
  refine ⟨?_, ?_, ?_, ?_, ?_, ?_⟩
  · intro hv; unfold dispatch; simp [hv, hp]
  · intro hv; unfold dispatch; simp [hv, hp]
  · intro hv; unfold dispatch; cases hf : o.formatid <;> simp [hv, hp, hf]
  · intro hv; unfold dispatch; cases hf : o.formatid <;> simp [hv, hp, hf]
  · intro a hv ha; unfold dispatch; simp [hv, hp, ha]
  · intro d hv hd; unfold dispatch; cases hf : o.formatid <;> simp [hv, hp, hd, hf]

/-- a missing `-pid` (or `-path` / `-algo` where required) is a ValueError and
    no API call is made -/
theorem missing_pid_rejected (df : Str) (o : CliOpts) (v : Verb) (hv : firstVerb o.verbs = some v)
    (hp : o.pid = none) : dispatch df o = .error .valueError := by
  unfold dispatch
  cases v <;> simp [hv, hp]

/-- As found, the size option reached the API as a `str`, i.e. ill-typed
    (defect D6) -/
theorem asFound_refuted : ¬ IArg.typed (sizeArgAsFound (some "11".toList)) := by
  simp [sizeArgAsFound, IArg.typed]

/-- the option names the model's record stands for exist in the client's
    argparse table with a plain string destination (table extracted from the
    source on every run) -/
def requiredOptions : List (Str × Str × Str) :=
  [("-pid".toList, "object_pid".toList, "store".toList),
   ("-path".toList, "object_path".toList, "store".toList),
   ("-algo".toList, "object_algorithm".toList, "store".toList),
   ("-checksum".toList, "object_checksum".toList, "store".toList),
   ("-checksum_algo".toList, "object_checksum_algorithm".toList, "store".toList),
   ("-obj_size".toList, "object_size".toList, "store".toList),
   ("-formatid".toList, "object_formatid".toList, "store".toList),
   ("-getchecksum".toList, "client_getchecksum".toList, "store_true".toList),
   ("-storeobject".toList, "client_storeobject".toList, "store_true".toList),
   ("-storemetadata".toList, "client_storemetadata".toList, "store_true".toList),
   ("-retrieveobject".toList, "client_retrieveobject".toList, "store_true".toList),
   ("-retrievemetadata".toList, "client_retrievemetadata".toList, "store_true".toList),
   ("-deleteobject".toList, "client_deleteobject".toList, "store_true".toList),
   ("-deletemetadata".toList, "client_deletemetadata".toList, "store_true".toList)]

theorem options_table : ∀ x ∈ requiredOptions, x ∈ Generated.clientOptions := by
  decide

/-! ### `dispatch` is the interpretation of the table translated from `main()` on every run -/

/-- every name of the table resolves (flags to verbs, variables to option fields, methods to API
    calls, the one conversion is `size = int(size)`) -/
theorem table_resolves : CliTable.verbTable.map CliTable.Row.resolve = CliTable.tableE.map some := by
  decide +kernel

set_option hygiene false in
macro "row_case" : tactic => `(tactic|
  (simp only [*, decide_true, decide_false, CliTable.runRow, CliTable.given, List.any, Bool.or_false, Bool.not_eq_true',
     CliTable.build, CliTable.valOf, List.map, Bool.false_eq_true, if_false, if_true, ↓reduceIte]
   cases o.pid <;> cases o.path <;> cases o.algo <;> cases hsz : o.objSize <;> simp [optS] <;>
     (try first
       | (cases o.formatid <;> rfl)
       | (rename_i s; cases pyIntOfStr s <;> simp))))

/-- **The model's `dispatch` is the generic interpretation of that table**, for every combination of
    verb flags and options: the first row whose flag is given; a missing required variable raises
    ValueError; `size = int(size)` when the row says so; the API method is called with the values of
    the row's variables in the row's order (the format id defaulted from hashstore.yaml). -/
theorem dispatch_is_table (df : Str) (o : CliOpts) : dispatch df o = CliTable.dispatchT CliTable.tableE df o := by
  unfold dispatch CliTable.dispatchT firstVerb chainOrder CliTable.tableE
  simp only [List.find?]
  by_cases h1 : Verb.getchecksum ∈ o.verbs
  · row_case
  by_cases h2 : Verb.storeobject ∈ o.verbs
  · row_case
  by_cases h3 : Verb.storemetadata ∈ o.verbs
  · row_case
  by_cases h4 : Verb.retrieveobject ∈ o.verbs
  · row_case
  by_cases h5 : Verb.retrievemetadata ∈ o.verbs
  · row_case
  by_cases h6 : Verb.deleteobject ∈ o.verbs
  · row_case
  by_cases h7 : Verb.deletemetadata ∈ o.verbs
  · row_case
  · simp only [*, decide_false]


def sampleOpts : CliOpts :=
  { verbs := [Verb.storeobject], pid := some "p".toList, path := some (DataArg.ok 1), algo := none,
    checksum := none, checksumAlgo := none, objSize := some "11".toList, formatid := none }

example : dispatch "ns".toList sampleOpts
    = .ok (some (.storeObject (.str "p".toList) (.ok 1) .none .none .none (.int 11))) := by decide

end HS.C20
