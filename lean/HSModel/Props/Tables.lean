/-
  Props/Tables — the constant tables extracted from /repo's current source
  (Generated.lean, rewritten on every run) equal the tables the model uses.
  A changed table in the source breaks one of these obligations.
  The `[Cxx, …]` tag in each doc comment lists the properties that depend on it.
-/
import HSModel.Generated
import HSModel.Algo
import HSModel.Shard
namespace HS.Tables

/-- [C02, C06, C17] the "other" (non-default) algorithm list -/
theorem otherAlgos_eq : Generated.otherAlgoList = some otherAlgos := by decide

/-- [C02, C15] the default algorithm list written into hashstore.yaml -/
theorem yamlDefaults_eq : Generated.yamlDefaultAlgoList = some (dataoneAlgos.map (·.1)) := by decide

/-- [C02, C14] DataONE name → hashlib name translation -/
theorem dataone_eq : Generated.dataoneAlgoTranslation = some dataoneAlgos := by decide

/-- [C14] accepted store algorithms are exactly the DataONE names -/
theorem acceptedStoreAlgorithms_eq :
    Generated.acceptedStoreAlgorithms = some (dataoneAlgos.map (·.1)) := by decide

/-- [C14] required property keys -/
theorem requiredKeys_eq : Generated.propertyRequiredKeys =
    some ["store_path".toList, "store_depth".toList, "store_width".toList,
          "store_algorithm".toList, "store_metadata_namespace".toList] := by decide

/-- [C14] directories whose presence without a yaml refuses initialisation -/
theorem subfolders_eq : Generated.subfolders =
    some ["objects".toList, "metadata".toList, "refs".toList] := by decide

/-- [C15] keys of hashstore.yaml -/
theorem yamlKeys_eq : Generated.yamlKeys =
    some ["store_depth".toList, "store_width".toList, "store_metadata_namespace".toList,
          "store_algorithm".toList, "store_default_algo_list".toList] := by decide

/-- [C05, C09, C10] the deletion-marker suffix -/
theorem deleteSuffix_eq : Generated.deleteSuffix = some deleteSuffix := by decide

/-- [C01] the Stream wrapper's fallback buffer size -/
theorem streamBuffer_eq : Generated.streamDefaultBuffer = some 8192 := by decide

/-- [C03, C05, C06, C17] the custom exception classes the model's enum names -/
theorem exceptionClasses_eq : Generated.exceptionClasses = some
    ["CidRefsContentError".toList, "CidRefsFileNotFound".toList, "HashStoreRefsAlreadyExists".toList,
     "IdentifierNotLocked".toList, "NonMatchingChecksum".toList, "NonMatchingObjSize".toList,
     "OrphanPidRefsFileFound".toList, "PidNotFoundInCidRefsFile".toList,
     "PidRefsAlreadyExistsError".toList, "PidRefsContentError".toList, "PidRefsDoesNotExist".toList,
     "PidRefsFileNotFound".toList, "RefsFileExistsButCidObjMissing".toList,
     "StoreObjectForPidAlreadyInProgress".toList, "UnsupportedAlgorithm".toList] := by decide

end HS.Tables
