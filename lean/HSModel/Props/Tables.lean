/-
  Props/Tables — the constant tables extracted from /repo's current source
  (Generated.lean, rewritten on every run) equal the tables the model uses.
  A changed table in the source breaks one of these obligations.
  The `[Cxx, …]` tag in each doc comment lists the properties that depend on it.
-/
import HSModel.Generated
import HSModel.GeneratedSync
import HSModel.Algo
import HSModel.Shard
import HSModel.SyncText
import HSModel.CliTable
import HSModel.Proofs.Acq
namespace HS.Tables

/-- [C02, C06, C17] the "other" (non-default) algorithm list -/
theorem otherAlgos_eq : Generated.otherAlgoList = some otherAlgos := by decide

/-- [C02, C15] the default algorithm list written into hashstore.yaml -/
theorem yamlDefaults_eq : Generated.yamlDefaultAlgoList = some (dataoneAlgos.map (·.1)) := by decide

/-- [C02, C14] DataONE name → hashlib name translation -/
theorem dataone_eq : Generated.dataoneAlgoTranslation = some dataoneAlgos := by decide

/-- [C14] accepted store algorithms are exactly the DataONE names -/
theorem acceptedStoreAlgorithms_eq :
    Generated.acceptedStoreAlgorithms = some (dataoneAlgos.map (·.1)) := by decide

/-- [C14] required property keys -/
theorem requiredKeys_eq : Generated.propertyRequiredKeys =
    some ["store_path".toList, "store_depth".toList, "store_width".toList,
          "store_algorithm".toList, "store_metadata_namespace".toList] := by decide

/-- [C14] directories whose presence without a yaml refuses initialisation -/
theorem subfolders_eq : Generated.subfolders =
    some ["objects".toList, "metadata".toList, "refs".toList] := by decide

/-- [C15] keys of hashstore.yaml -/
theorem yamlKeys_eq : Generated.yamlKeys =
    some ["store_depth".toList, "store_width".toList, "store_metadata_namespace".toList,
          "store_algorithm".toList, "store_default_algo_list".toList] := by decide

/-- [C05, C09, C10] the deletion-marker suffix -/
theorem deleteSuffix_eq : Generated.deleteSuffix = some deleteSuffix := by decide

/-- [C01] the Stream wrapper's fallback buffer size -/
theorem streamBuffer_eq : Generated.streamDefaultBuffer = some 8192 := by decide

/-- [C03, C05, C06, C17] the custom exception classes the model's enum names -/
theorem exceptionClasses_eq : Generated.exceptionClasses = some
    ["CidRefsContentError".toList, "CidRefsFileNotFound".toList, "HashStoreRefsAlreadyExists".toList,
     "IdentifierNotLocked".toList, "NonMatchingChecksum".toList, "NonMatchingObjSize".toList,
     "OrphanPidRefsFileFound".toList, "PidNotFoundInCidRefsFile".toList,
     "PidRefsAlreadyExistsError".toList, "PidRefsContentError".toList, "PidRefsDoesNotExist".toList,
     "PidRefsFileNotFound".toList, "RefsFileExistsButCidObjMissing".toList,
     "StoreObjectForPidAlreadyInProgress".toList, "UnsupportedAlgorithm".toList] := by decide

/-! ### the synchronisation text of the source (translated on every run, `synctext.py`) -/

/-- [C07, C08, C12, C16] every mode-dependent section of the source is, in both modes, the canonical
acquire / release / check / refuse text over the list and the condition of one lock class — the
texts whose semantics the monitor `Locks.Step` is (`SyncText.lean`): the wait is in a `while`, the
release notifies the condition the acquirers of that list wait on. -/
theorem sync_sections_canonical : GeneratedSync.syncSections = SyncText.expectedSections := by decide +kernel

/-- [C16] the multiprocessing branch of every section is the threading branch with `_mp` for `_th` -/
theorem sync_mode_mirror : GeneratedSync.syncSections.all (fun s => s.2.1 == s.2.2) = true := by decide +kernel

/-- [C16] in multiprocessing mode every lock, condition and list is of the cross-process kind, and
every class has its list and its condition -/
theorem sync_init_mp_cross_process : ∃ t, GeneratedSync.syncInitMp = some t ∧
    t.all SyncText.crossProcessRow = true ∧
    (∀ c : LockClass, SyncText.hasListAndCond t c = true) :=
  ⟨_, rfl, by decide +kernel, by intro c; cases c <;> decide +kernel⟩

/-- [C07, C08, C12] in threading mode every class has its list and its condition -/
theorem sync_init_th_complete : ∃ t, GeneratedSync.syncInitTh = some t ∧
    (∀ c : LockClass, SyncText.hasListAndCond t c = true) :=
  ⟨_, rfl, by intro c; cases c <;> decide +kernel⟩

/-- [C16] the mode is read from the documented environment variable -/
theorem mode_flag_eq : GeneratedSync.modeFlag =
    some ("USE_MULTIPROCESSING".toList, "False".toList, "True".toList) := by decide +kernel

/-- [C07, C08, C12, C16] the lock order of the source: whenever a method (calls followed) acquires an
identifier of one list while it may hold one of another, the class goes up in `LockClass.rank`
(the side condition `hord` of `Step.request`; the order `ConcSafe` uses) — in particular no list is
acquired while an identifier of the same list is held. -/
theorem lock_order_ascends : ∃ es, GeneratedSync.lockOrderEdges = some es ∧
    es.all SyncText.edgeAscends = true := ⟨_, rfl, by decide +kernel⟩

/-- [C07, C08, C12, C13, C16] every claim of an identifier in the source is released on every exit —
the matching release stands in the `finally` of a `try` the claim lies in or of the `try` that is
the very next statement (the source-level form of the discipline `Prog.Disc` that `calls_disciplined`
proves of the model's program texts) — and the claims are those of the model's calls. -/
theorem acquire_sites_guarded : ∃ ss, GeneratedSync.acquireSites = some ss ∧
    ss.all SyncText.siteGuarded = true ∧
    ss.map SyncText.siteKey = SyncText.expectedSites.map (fun e => (e.1, some e.2)) :=
  ⟨_, rfl, by decide +kernel, by decide +kernel⟩

/-- [C07, C08, C12, C16] **The lists an API method of the source may claim an identifier of — every method body walked
    with calls followed, translated on every run (`synctext.public_acquires`) — are exactly the classes
    the corresponding call of the model may claim** (`classesOf`, proved of the program texts by
    `calls_claim_only_their_classes`). -/
theorem source_claims_are_model_claims :
    GeneratedSync.publicAcquires = reps.map (fun c => (apiName c, (classesOf c).map SyncText.listOf)) := by
  decide +kernel

/-- [C20] the table `harness/hsv/clitext.py` translates from the source's `main()` on every run — the `elif`
chain verb by verb (flag, required variables in order, conversions, API method, argument variables in
order, what is done with the result besides printing), the option variables and the default of the
format id — is the table of the model, whose generic interpretation `C20.dispatch_is_table` proves the
model's `dispatch` to be -/
theorem client_table_is_source :
    GeneratedSync.clientRows.map CliTable.Row.ofTuple = CliTable.verbTable ∧
    GeneratedSync.clientVars = CliTable.varSources ∧
    GeneratedSync.clientFormatDefault = some CliTable.formatDefault := by decide +kernel

end HS.Tables
