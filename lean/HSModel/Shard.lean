/-
  HSModel.Shard — `_shard` (2231-2266) and the published layout.
-/
import HSModel.Types
namespace HS

/-- `compact`: keep truthy (non-empty) items -/
def compact (l : List Str) : List Str := l.filter (fun s => s ≠ [])

/-- Python slice `s[a:b]` for non-negative `a`, `b`. -/
def pySlice (s : Str) (a b : Nat) : Str := (s.drop a).take (b - a)

/-- `_shard` exactly as the comprehension is written. -/
def shardPy (depth width : Nat) (s : Str) : List Str :=
  compact (((List.range depth).map fun i => pySlice s (i * width) (width * (i + 1)))
            ++ [s.drop (depth * width)])

/-- The README's description: `depth` tokens of `width` characters taken from the
    front, then the remainder; empty tokens are dropped. -/
def shardSpec : Nat → Nat → Str → List Str
  | 0, _, s => compact [s]
  | d + 1, w, s => compact [s.take w] ++ shardSpec d w (s.drop w)

/-- The four permanent areas and the three temp areas. -/
inductive Area | obj | pidRef | cidRef | mdata
  deriving DecidableEq, Repr
inductive TmpArea | obj | mdata | refs
  deriving DecidableEq, Repr

def Area.dir : Area → List String
  | .obj => ["objects"] | .pidRef => ["refs", "pids"] | .cidRef => ["refs", "cids"]
  | .mdata => ["metadata"]
def TmpArea.dir : TmpArea → List String
  | .obj => ["objects", "tmp"] | .mdata => ["metadata", "tmp"] | .refs => ["refs", "tmp"]

/-- A permanent location, keyed by hash strings (not by identifiers). A
    deletion marker `<name>_delete` is simply the location whose key has the
    suffix appended (valid when `depth*width < |key|`, which the configuration
    guard of the driver enforces). -/
inductive Loc
  | obj (cid : Str)
  | pidRef (key : Str)
  | cidRef (cid : Str)
  | mdoc (dir doc : Str)
  deriving DecidableEq, Repr

def deleteSuffix : Str := "_delete".toList

def Loc.marker : Loc → Loc
  | .obj c => .obj (c ++ deleteSuffix)
  | .pidRef k => .pidRef (k ++ deleteSuffix)
  | .cidRef c => .cidRef (c ++ deleteSuffix)
  | .mdoc d n => .mdoc d (n ++ deleteSuffix)

/-- Path components relative to the store root. -/
def Loc.path (depth width : Nat) : Loc → List Str
  | .obj c => Area.obj.dir.map String.toList ++ shardPy depth width c
  | .pidRef k => Area.pidRef.dir.map String.toList ++ shardPy depth width k
  | .cidRef c => Area.cidRef.dir.map String.toList ++ shardPy depth width c
  | .mdoc d n => Area.mdata.dir.map String.toList ++ shardPy depth width d ++ [n]

end HS
