/-
  HSModel.Spec — what the store *is*: three finite maps and one clause per
  public call. Identifiers are keys as given (no hashing, no files, no locks).
  This is the specification the concrete model is proved to refine, and the
  oracle the harness runs against the real code when it searches for a
  failing input.
-/
import HSModel.Calls
namespace HS

structure Abs where
  objs : FMap Str Tok            -- cid ↦ content
  bind : FMap Str Str            -- pid ↦ cid
  docs : FMap (Str × Str) Tok    -- (pid, format) ↦ document
  deriving Repr

def Abs.empty : Abs := { objs := .empty, bind := .empty, docs := .empty }

namespace Abs

/-- some pid is bound to `cid` (concretely: the cid has a reference list) -/
def referenced (a : Abs) (cid : Str) : Bool := a.bind.entries.any fun e => e.2 = cid

def tag (a : Abs) (pid cid : Str) : Except Exc Unit × Abs :=
  match a.bind.get pid with
  | some _ =>
    (.error (if a.referenced cid then .hashStoreRefsAlreadyExists else .pidRefsAlreadyExists), a)
  | none => (.ok (), { a with bind := a.bind.set pid cid })

def dropDocs (a : Abs) (pid : Str) : FMap (Str × Str) Tok :=
  ⟨a.docs.entries.filter fun e => e.1.1 ≠ pid⟩

/-- which classification `_find_object` gives for a pid in an exact store -/
def find (a : Abs) (pid : Str) : Except Exc Str :=
  match a.bind.get pid with
  | none => .error .pidRefsDoesNotExist
  | some cid => if a.objs.contains cid then .ok cid else .error .refsFileExistsButCidObjMissing

section
variable (cfg : Config) (o : Oracle)

def objMetaOf (t : Tok) (add cs : Option Str) : ObjMeta :=
  { cid := o.dig cfg.alg t, size := o.size t,
    digests := (refineAlgorithmList defaultAlgos add cs).map fun a => (a, o.dig a t) }

/-- put content `t` at address `cid` unless something is already there
    ("files are stored once and only once", 1240-1243) -/
def addObj (a : Abs) (cid : Str) (t : Tok) : Abs :=
  if a.objs.contains cid then a else { a with objs := a.objs.set cid t }

/-- removal performed by `delete_if_invalid_object` on an invalid verdict -/
def deleteOnly (a : Abs) (cid : Str) : Except Exc Unit × Abs :=
  if a.referenced cid then (.ok (), a)
  else if a.objs.contains cid then (.ok (), { a with objs := a.objs.del cid })
  else (.error .fileNotFound, a)

/-- argument checks of `store_object(pid, …)` in source order, then `Stream(data)` -/
def storeArgs (pid : SArg) (data : DataArg) (additional checksum csAlg : SArg) (expSize : IArg) :
    Except Exc (Str × Option Str × Option Str × Tok) := do
  let p ← checkString pid
  checkArgData data
  checkInteger expSize
  let ac ← checkArgAlgorithmsAndChecksum cfg.alg additional checksum csAlg
  let t ← openStream data
  pure (p, ac.1, ac.2, t)

/-- argument checks shared by the three metadata calls -/
def metaArgs (pid fmt : SArg) : Except Exc (Str × Str) := do
  let p ← checkString pid
  let f ← checkArgFormatId cfg.ns fmt
  pure (p, f)

def divArgs (checksum csAlg : SArg) (expSize : IArg) : Except Exc (Str × Str) := do
  let c ← checkString checksum
  let al ← checkString csAlg
  checkInteger expSize
  pure (c, al)

def sArgStr : SArg → Option Str
  | .str c => some c
  | _ => none

/-- the digest `delete_if_invalid_object` compares with -/
def divDigest (a : Abs) (m : ObjMeta) (alg : Str) : Except Exc Str :=
  match lookupDigest m.digests alg with
  | some d => .ok d
  | none => match lookupDigest m.digests cfg.alg with
    | none => .error .keyError
    | some oc => match a.objs.get oc with
      | none => .error .fileNotFound
      | some t => .ok (o.dig alg t)

/-- result of a call that raises `e` unless the clean-up itself failed -/
def orElse (r : Except Exc Unit) (e : Exc) : Except Exc Val :=
  match r with
  | .error e' => .error e'
  | .ok _ => .error e

/-- `store_object(None, data)` -/
def storeData (a : Abs) (data : DataArg) : Except Exc Val × Abs :=
  match (do checkArgData data; openStream data : Except Exc Tok) with
  | .error e => (.error e, a)
  | .ok t =>
    let m := objMetaOf cfg o t none none
    (.ok (.objMeta m), a.addObj m.cid t)

/-- `store_object(pid, data, …)` -/
def storeObj (a : Abs) (pid : SArg) (data : DataArg) (additional checksum csAlg : SArg)
    (expSize : IArg) : Except Exc Val × Abs :=
  match storeArgs cfg pid data additional checksum csAlg expSize with
  | .error e => (.error e, a)
  | .ok (p, add', cs', t) =>
    let m := objMetaOf cfg o t add' cs'
    match (verdict m.digests (fun x => o.dig x t) m.size expSize (sArgStr checksum) cs').exc with
    | some e => (.error e, a)
    | none =>
      let r := (a.addObj m.cid t).tag p m.cid
      (r.1.map fun _ => .objMeta m, r.2)

def tagObj (a : Abs) (pid cid : SArg) : Except Exc Val × Abs :=
  match (do let p ← checkString pid; let c ← checkString cid; pure (p, c) : Except Exc (Str × Str)) with
  | .error e => (.error e, a)
  | .ok (p, c) =>
    let r := a.tag p c
    (r.1.map fun _ => .unit, r.2)

def divObj (a : Abs) (om : Option ObjMeta) (checksum csAlg : SArg) (expSize : IArg) :
    Except Exc Val × Abs :=
  match divArgs checksum csAlg expSize with
  | .error e => (.error e, a)
  | .ok (c, al) =>
  match om with
  | none => (.error .valueError, a)
  | some m =>
  match cleanAlgorithm al with
  | .error e => (.error e, a)
  | .ok a' =>
    if sizeMismatch expSize m.size then
      let r := deleteOnly a m.cid
      (orElse r.1 .nonMatchingObjSize, r.2)
    else
    match divDigest cfg o a m a' with
    | .error e => (.error e, a)
    | .ok d =>
      if d ≠ lower c then
        let r := deleteOnly a m.cid
        (orElse r.1 .nonMatchingChecksum, r.2)
      else (.ok .unit, a)

def storeMeta (a : Abs) (pid : SArg) (data : DataArg) (fmt : SArg) : Except Exc Val × Abs :=
  match (do let p ← checkString pid; checkArgData data; let f ← checkArgFormatId cfg.ns fmt; pure (p, f)
      : Except Exc (Str × Str)) with
  | .error e => (.error e, a)
  | .ok (p, f) =>
  match openStream data with
  | .error e => (.error e, a)
  | .ok t =>
    (.ok (.path (.mdoc (o.hId p) (o.hId (p ++ f)))), { a with docs := a.docs.set (p, f) t })

def retrieveObj (a : Abs) (pid : SArg) : Except Exc Val × Abs :=
  match checkString pid with
  | .error e => (.error e, a)
  | .ok p =>
  match a.find p with
  | .error e => (.error e, a)
  | .ok cid =>
    if cid = [] then (.error .valueError, a) else
    match a.objs.get cid with
    | some t => (.ok (.content t), a)
    | none => (.error .fileNotFound, a)

def retrieveMeta (a : Abs) (pid fmt : SArg) : Except Exc Val × Abs :=
  match metaArgs cfg pid fmt with
  | .error e => (.error e, a)
  | .ok (p, f) =>
    match a.docs.get (p, f) with
    | some t => (.ok (.content t), a)
    | none => (.error .valueError, a)

def deleteObj (a : Abs) (pid : SArg) : Except Exc Val × Abs :=
  match checkString pid with
  | .error e => (.error e, a)
  | .ok p =>
  match a.bind.get p with
  | none => (.error .pidRefsDoesNotExist, a)
  | some cid =>
    let bind' := a.bind.del p
    let a1 : Abs := { a with bind := bind' }
    let objs' := if a1.referenced cid then a.objs else a.objs.del cid
    (.ok .unit, { objs := objs', bind := bind', docs := a.dropDocs p })

def deleteMeta (a : Abs) (pid fmt : SArg) : Except Exc Val × Abs :=
  match metaArgs cfg pid fmt with
  | .error e => (.error e, a)
  | .ok (p, f) =>
    match fmt with
    | .none => (.ok .unit, { a with docs := a.dropDocs p })
    | _ => (.ok .unit, { a with docs := a.docs.del (p, f) })

def hexDigest (a : Abs) (pid alg : SArg) : Except Exc Val × Abs :=
  match (do
      let p ← checkString pid
      let al ← checkString alg
      let a' ← cleanAlgorithm al
      pure (p, a') : Except Exc (Str × Str)) with
  | .error e => (.error e, a)
  | .ok (p, a') =>
  match a.find p with
  | .error e => (.error e, a)
  | .ok cid =>
    match a.objs.get cid with
    | some t => (.ok (.hex (o.dig a' t)), a)
    | none => (.error .valueError, a)

/-- one clause per public call -/
def step (a : Abs) : Call → Except Exc Val × Abs
  | .storeObject pid data additional checksum csAlg expSize =>
    match pid with
    | .none => storeData cfg o a data
    | _ => storeObj cfg o a pid data additional checksum csAlg expSize
  | .tagObject pid cid => tagObj a pid cid
  | .deleteIfInvalid om checksum csAlg expSize => divObj cfg o a om checksum csAlg expSize
  | .storeMetadata pid data fmt => storeMeta cfg o a pid data fmt
  | .retrieveObject pid => retrieveObj a pid
  | .retrieveMetadata pid fmt => retrieveMeta cfg a pid fmt
  | .deleteObject pid => deleteObj a pid
  | .deleteMetadata pid fmt => deleteMeta cfg a pid fmt
  | .getHexDigest pid alg => hexDigest o a pid alg
end
end Abs
end HS
