/-
  HSModel.Store — the concrete on-disk state, the primitive effects (the only
  ways the directory changes) and the in-memory lock lists.
-/
import HSModel.Shard
import HSModel.Text
namespace HS

structure Store where
  objs    : FMap Str Tok          -- objects/<shard cid>            (markers: key ++ "_delete")
  pidRefs : FMap Str Str          -- refs/pids/<shard H(pid)>       raw text (a cid)
  cidRefs : FMap Str Str          -- refs/cids/<shard cid>          raw text (pid lines)
  mdocs   : FMap (Str × Str) Tok  -- metadata/<shard H(pid)>/<doc>
  tmpObj  : Nat                   -- number of files in objects/tmp
  tmpMeta : Nat                   -- … metadata/tmp
  tmpRefs : Nat                   -- … refs/tmp
  dirs    : List (Area × Str)     -- `mkdirs` performed for (area, key)
  deriving Repr

def Store.empty : Store :=
  { objs := .empty, pidRefs := .empty, cidRefs := .empty, mdocs := .empty,
    tmpObj := 0, tmpMeta := 0, tmpRefs := 0, dirs := [] }

/-- Primitive file-system effects. `publish*` is the `move` of a temp file to
    a permanent location (atomic replace); the program supplies the body. -/
inductive Eff
  | mkdirs (a : Area) (key : Str)
  | mkTmp (a : TmpArea)
  | removeTmp (a : TmpArea)
  | publishObj (cid : Str) (t : Tok)
  | publishDoc (dir doc : Str) (t : Tok)
  | publishPidRef (key : Str) (text : Str)
  | publishCidRef (cid : Str) (text : Str)
  | retire (l : Loc)                       -- rename to `<name>_delete`
  | remove (l : Loc)                       -- os.remove of a file in a permanent area
  | appendCid (cid : Str) (s : Str)        -- open 'a', flock, write
  | rewriteCid (cid : Str) (text : Str)    -- r+: write `text` at offset 0 (no truncate yet)
  | truncateCid (cid : Str) (n : Nat)      -- truncate to n characters
  deriving DecidableEq, Repr

/-- lexicographic order on code points (Python's `str` order) -/
def strLe : Str → Str → Bool
  | [], _ => true
  | _ :: _, [] => false
  | a :: as, b :: bs => if a.toNat < b.toNat then true else if b.toNat < a.toNat then false else strLe as bs

def insertStr (x : Str) : List Str → List Str
  | [] => [x]
  | y :: r => if strLe x y then x :: y :: r else y :: insertStr x r

def sortStrs (l : List Str) : List Str := l.foldr insertStr []

namespace Store

def isFile (s : Store) : Loc → Bool
  | .obj c => s.objs.contains c
  | .pidRef k => s.pidRefs.contains k
  | .cidRef c => s.cidRefs.contains c
  | .mdoc d n => s.mdocs.contains (d, n)

def tmpCount (s : Store) : TmpArea → Nat
  | .obj => s.tmpObj | .mdata => s.tmpMeta | .refs => s.tmpRefs

def setTmp (s : Store) (a : TmpArea) (n : Nat) : Store :=
  match a with
  | .obj => { s with tmpObj := n } | .mdata => { s with tmpMeta := n }
  | .refs => { s with tmpRefs := n }

/-- move the file at `l` to `l.marker` (replacing an older marker) -/
def retire (s : Store) : Loc → Option Store
  | .obj c => (s.objs.get c).map fun v =>
      { s with objs := (s.objs.del c).set (c ++ deleteSuffix) v }
  | .pidRef k => (s.pidRefs.get k).map fun v =>
      { s with pidRefs := (s.pidRefs.del k).set (k ++ deleteSuffix) v }
  | .cidRef c => (s.cidRefs.get c).map fun v =>
      { s with cidRefs := (s.cidRefs.del c).set (c ++ deleteSuffix) v }
  | .mdoc d n => (s.mdocs.get (d, n)).map fun v =>
      { s with mdocs := (s.mdocs.del (d, n)).set (d, n ++ deleteSuffix) v }

def remove (s : Store) : Loc → Option Store
  | .obj c => if s.objs.contains c then some { s with objs := s.objs.del c } else none
  | .pidRef k => if s.pidRefs.contains k then some { s with pidRefs := s.pidRefs.del k } else none
  | .cidRef c => if s.cidRefs.contains c then some { s with cidRefs := s.cidRefs.del c } else none
  | .mdoc d n => if s.mdocs.contains (d, n) then some { s with mdocs := s.mdocs.del (d, n) } else none

/-- Apply an effect. `none` = the primitive fails with `FileNotFoundError`
    (source of a rename/remove/open absent) and changes nothing. -/
def apply (s : Store) : Eff → Option Store
  | .mkdirs a k => some { s with dirs := (a, k) :: s.dirs }
  | .mkTmp a => some (s.setTmp a (s.tmpCount a + 1))
  | .removeTmp a => if s.tmpCount a = 0 then none else some (s.setTmp a (s.tmpCount a - 1))
  | .publishObj c t =>
      if s.tmpObj = 0 then none else some { s with tmpObj := s.tmpObj - 1, objs := s.objs.set c t }
  | .publishDoc d n t =>
      if s.tmpMeta = 0 then none
      else some { s with tmpMeta := s.tmpMeta - 1, mdocs := s.mdocs.set (d, n) t }
  | .publishPidRef k x =>
      if s.tmpRefs = 0 then none
      else some { s with tmpRefs := s.tmpRefs - 1, pidRefs := s.pidRefs.set k x }
  | .publishCidRef c x =>
      if s.tmpRefs = 0 then none
      else some { s with tmpRefs := s.tmpRefs - 1, cidRefs := s.cidRefs.set c x }
  | .retire l => s.retire l
  | .remove l => s.remove l
  | .appendCid c x => (s.cidRefs.get c).map fun t => { s with cidRefs := s.cidRefs.set c (t ++ x) }
  | .rewriteCid c x =>
      (s.cidRefs.get c).map fun t => { s with cidRefs := s.cidRefs.set c (overwritePrefix x t) }
  | .truncateCid c n => (s.cidRefs.get c).map fun t => { s with cidRefs := s.cidRefs.set c (t.take n) }

/-- names of the files in `metadata/<shard dir>/` (markers included), sorted by
    code points (the harness makes `os.listdir` under the store root sorted, so
    that the order of the delete-all loop is defined) -/
def listDocs (s : Store) (dir : Str) : List Str :=
  sortStrs ((s.mdocs.entries.filter (fun e => e.1.1 = dir)).map (·.1.2) |>.eraseDups)

end Store

inductive LockClass | objPid | refPid | cid | doc
  deriving DecidableEq, Repr

structure Locks where
  objPid : List Str := []
  refPid : List Str := []
  cid    : List Str := []
  doc    : List Str := []
  deriving Repr, DecidableEq

namespace Locks
def get (l : Locks) : LockClass → List Str
  | .objPid => l.objPid | .refPid => l.refPid | .cid => l.cid | .doc => l.doc
def put (l : Locks) (c : LockClass) (v : List Str) : Locks :=
  match c with
  | .objPid => { l with objPid := v } | .refPid => { l with refPid := v }
  | .cid => { l with cid := v } | .doc => { l with doc := v }
def isEmpty (l : Locks) : Bool := l.objPid.isEmpty && l.refPid.isEmpty && l.cid.isEmpty && l.doc.isEmpty
end Locks

end HS
