/-
  HSModel.Stream — the `Stream` wrapper (2792-2849): reads from offset 0 in
  buffer-size chunks until an empty read; restores the caller's position.
-/
import HSModel.Basic
namespace HS

/-- successive `read(n)` results from offset 0 until the empty read -/
def chunks {α : Type} (n : Nat) (bs : List α) : List (List α) :=
  if _h : n = 0 ∨ bs = [] then [] else bs.take n :: chunks n (bs.drop n)
termination_by bs.length
decreasing_by
  simp only [List.length_drop]
  have : bs.length ≠ 0 := by
    intro e; exact _h (Or.inr (List.length_eq_zero_iff.mp e))
  omega

/-- how the data argument reaches the store -/
inductive StreamKind | path | pathObj | file | bytesIO | buffered
  deriving DecidableEq, Repr

/-- state of a caller-visible stream object -/
structure StreamState where
  closed : Bool
  pos : Nat
  deriving DecidableEq, Repr

/-- `Stream.__init__` remembers `pos = obj.tell()` for a caller-supplied stream
    and `None` for a path it opens itself; `__iter__` seeks to 0, reads to the
    end, then seeks back; `close()` seeks back again (caller's stream) or
    closes (own handle). Result: the caller's stream afterwards. -/
def afterUse (callerStream : Bool) (s : StreamState) (len : Nat) : StreamState :=
  if callerStream then
    let _readToEnd : StreamState := { s with pos := len }
    { closed := false, pos := s.pos }
  else { closed := true, pos := len }

end HS
