/-
  HSModel.SyncText — the program texts behind the monitor of `Locks.lean`, in the token
  form the translator (harness/hsv/synctext.py) produces from the Python source.

  `acquireText cond lst v` is
      with self.<cond>:
          while <v> in self.<lst>:
              self.<cond>.wait()
          self.<lst>.append(<v>)
  whose semantics is `Step.request` (reach the `with`), then `Step.sleep` / `Step.take`
  (the test of the `while` inside the condition's mutex; `wait` releases the mutex and,
  once notified, re-acquires it and the test is made AGAIN — a `while`, not an `if`);
  `releaseText cond lst v` is
      with self.<cond>:
          self.<lst>.remove(<v>)
          self.<cond>.notify()
  whose semantics is `Step.releaseNone` / `Step.releaseWake` (the SAME condition the
  acquirers of that list wait on; one waiter wakes).  That reading of the two six-line
  texts is the trusted part; that the Python source consists of these texts is proved
  in Props/Tables.lean from the translation made on every run.
-/
import HSModel.Locks
namespace HS.SyncText

def acquireText (cond lst v : Str) : List Str :=
  [ "with ".toList ++ cond,
    "while ".toList ++ v ++ " in ".toList ++ lst,
    "wait ".toList ++ cond,
    "end".toList,
    "append ".toList ++ lst ++ " ".toList ++ v,
    "end".toList ]

def releaseText (cond lst v : Str) : List Str :=
  [ "with ".toList ++ cond,
    "remove ".toList ++ lst ++ " ".toList ++ v,
    "notify ".toList ++ cond,
    "end".toList ]

/-- `_check_*`: raise `IdentifierNotLocked` unless the identifier is in the list (no mutex: a read) -/
def checkText (lst v : Str) : List Str :=
  [ "if ".toList ++ v ++ " not in ".toList ++ lst,
    "raise IdentifierNotLocked".toList,
    "end".toList ]

/-- the in-progress test of `store_object` (inside the mutex of the pid list) -/
def refuseText (cond lst v : Str) : List Str :=
  [ "with ".toList ++ cond,
    "if ".toList ++ v ++ " in ".toList ++ lst,
    "raise StoreObjectForPidAlreadyInProgress".toList,
    "end".toList,
    "end".toList ]

/-- the four "locked identifier" lists of the source and the class each one is in the model -/
def listOf : LockClass → Str
  | .objPid => "object_locked_pids".toList
  | .refPid => "reference_locked_pids".toList
  | .cid    => "object_locked_cids".toList
  | .doc    => "metadata_locked_docs".toList

/-- the condition the source uses with each list -/
def condOf : LockClass → Str
  | .objPid => "object_pid_condition".toList
  | .refPid => "reference_pid_condition".toList
  | .cid    => "object_cid_condition".toList
  | .doc    => "metadata_condition".toList

def classOfList (s : Str) : Option LockClass :=
  if s = listOf .objPid then some .objPid
  else if s = listOf .refPid then some .refPid
  else if s = listOf .cid then some .cid
  else if s = listOf .doc then some .doc
  else none

def acquireOf (c : LockClass) (v : Str) : List Str := acquireText (condOf c) (listOf c) v
def releaseOf (c : LockClass) (v : Str) : List Str := releaseText (condOf c) (listOf c) v

/-- both branches of a section are the same text -/
def both (f : Str) (t : List Str) : Str × List Str × List Str := (f, t, t)

/-- every mode-dependent section of the source, in source order -/
def expectedSections : List (Str × List Str × List Str) :=
  [ both "store_object".toList (refuseText (condOf .objPid) (listOf .objPid) "pid".toList),
    both "store_metadata".toList (acquireOf .doc "pid_doc".toList),
    both "store_metadata".toList (releaseOf .doc "pid_doc".toList),
    both "delete_metadata".toList (acquireOf .doc "pid_doc".toList),
    both "delete_metadata".toList (releaseOf .doc "pid_doc".toList),
    both "delete_metadata".toList (acquireOf .doc "pid_doc".toList),
    both "delete_metadata".toList (releaseOf .doc "pid_doc".toList),
    both "_synchronize_object_locked_pids".toList (acquireOf .objPid "pid".toList),
    both "_release_object_locked_pids".toList (releaseOf .objPid "pid".toList),
    both "_synchronize_object_locked_cids".toList (acquireOf .cid "cid".toList),
    both "_check_object_locked_cids".toList (checkText (listOf .cid) "cid".toList),
    both "_release_object_locked_cids".toList (releaseOf .cid "cid".toList),
    both "_synchronize_referenced_locked_pids".toList (acquireOf .refPid "pid".toList),
    both "_check_reference_locked_pids".toList (checkText (listOf .refPid) "pid".toList),
    both "_release_reference_locked_pids".toList (releaseOf .refPid "pid".toList) ]

/-- the claims of identifiers in the source outside the acquire methods: (function, class), in
    source order. `tag_object` claims through `_store_hashstore_refs_files`, `delete_if_invalid_object`
    through `_delete_object_only`; `delete_object` claims the cid on its normal path and on its
    missing-object path. These are the acquires of `Calls.lean`. -/
def expectedSites : List (Str × LockClass) :=
  [ ("store_object".toList, .objPid), ("store_metadata".toList, .doc),
    ("delete_object".toList, .objPid), ("delete_object".toList, .cid), ("delete_object".toList, .cid),
    ("delete_metadata".toList, .doc), ("delete_metadata".toList, .doc),
    ("_store_hashstore_refs_files".toList, .refPid), ("_store_hashstore_refs_files".toList, .cid),
    ("_delete_object_only".toList, .cid) ]

/-- a claim is released on every exit, and nothing is released that was not claimed: the matching
    release stands in the `finally` of a `try` at whose head the claim stands (only claims, logging,
    message strings and path computations before it), or of the `try` that is the very next statement -/
def siteGuarded (s : Str × Str × Str × Str) : Bool :=
  s.2.2.2 = "finally-of-enclosing-try".toList ∨ s.2.2.2 = "finally-of-next-try".toList

def siteKey (s : Str × Str × Str × Str) : Str × Option LockClass := (s.1, classOfList s.2.1)

/-- an edge of the source's lock-order relation goes up in rank -/
def edgeAscends (e : Str × Str) : Bool :=
  match classOfList e.1, classOfList e.2 with
  | some a, some b => decide (a.rank < b.rank)
  | _, _ => false

/-- kinds of synchronisation objects: a row (attribute, constructor, argument) of `__init__` -/
def crossProcessRow (r : Str × Str × Str) : Bool :=
  r.2.1 = "multiprocessing.Lock".toList ∨ r.2.1 = "multiprocessing.Condition".toList ∨
  r.2.1 = "multiprocessing.Manager.list".toList

/-- each list has a condition of its own in the table -/
def hasListAndCond (t : List (Str × Str × Str)) (c : LockClass) : Bool :=
  t.any (fun r => r.1 = listOf c) && t.any (fun r => r.1 = condOf c)

/-- conditions over one list are not shared between classes: distinct classes, distinct names -/
theorem condOf_injective : ∀ a b : LockClass, condOf a = condOf b → a = b := by
  intro a b; cases a <;> cases b <;> decide

theorem listOf_injective : ∀ a b : LockClass, listOf a = listOf b → a = b := by
  intro a b; cases a <;> cases b <;> decide

theorem classOfList_listOf (c : LockClass) : classOfList (listOf c) = some c := by
  cases c <;> decide

end HS.SyncText
