/-
  HSModel.Text — reference-file text: how the code reads, tests and rewrites a
  cid reference list (1860-1929) and a pid reference (2667-2677).
  Text-mode line splitting is modelled for '\n' only: no API call can write a
  '\r' into a reference file (identifiers with whitespace are rejected).
-/
import HSModel.Types
namespace HS

/-- `readlines()` / `for line in f`: lines with their terminator kept. -/
def linesKeep : Str → List Str
  | [] => []
  | c :: r =>
    if c = '\n' then ['\n'] :: linesKeep r
    else match linesKeep r with
      | [] => [[c]]
      | l :: ls => (c :: l) :: ls

/-- the values compared by the code: `line.strip()` of every line -/
def pyLines (t : Str) : List Str := (linesKeep t).map strip

/-- `_is_string_in_refs_file(id, file)` -/
def inRefs (id : Str) (t : Str) : Bool := (pyLines t).contains id

/-- `new_pid_lines` of `_update_refs_file(…, "remove")`, joined -/
def removeLines (id : Str) (t : Str) : Str :=
  ((linesKeep t).filter fun l => strip l ≠ id).flatten

/-- writing `new` at offset 0 of a file holding `old`, without truncating -/
def overwritePrefix (new old : Str) : Str := new ++ old.drop new.length

/-- a cid reference list as the code writes it: one `pid\n` per line -/
def renderLines (ls : List Str) : Str := (ls.map fun l => l ++ ['\n']).flatten

end HS
