/-
  HSModel.Types — exception classes (as an enum), optional Python arguments.
-/
import HSModel.Chars
namespace HS

/-- Exception classes an API call can end with. `osError` stands for every
    `OSError` subclass other than `FileNotFoundError`/`FileExistsError`
    (injected EIO / ENOSPC / EACCES all canonicalise to it). -/
inductive Exc
  | valueError | typeError | keyError | attributeError
  | fileNotFound | fileExists | runtimeError | osError | genericException
  | unsupportedAlgorithm | nonMatchingChecksum | nonMatchingObjSize
  | hashStoreRefsAlreadyExists | pidRefsAlreadyExists | pidRefsDoesNotExist
  | orphanPidRefsFileFound | pidNotFoundInCidRefsFile | refsFileExistsButCidObjMissing
  | pidRefsFileNotFound | cidRefsFileNotFound | pidRefsContentError | cidRefsContentError
  | storeObjectInProgress | identifierNotLocked
  | blocked      -- sequential semantics only: an acquire found the identifier held
  | modelBug     -- a continuation received a response of the wrong shape (never reachable)
  deriving DecidableEq, Repr, Inhabited

def Exc.name : Exc → String
  | .valueError => "ValueError" | .typeError => "TypeError" | .keyError => "KeyError"
  | .attributeError => "AttributeError"
  | .fileNotFound => "FileNotFoundError" | .fileExists => "FileExistsError"
  | .runtimeError => "RuntimeError" | .osError => "OSError" | .genericException => "Exception"
  | .unsupportedAlgorithm => "UnsupportedAlgorithm"
  | .nonMatchingChecksum => "NonMatchingChecksum" | .nonMatchingObjSize => "NonMatchingObjSize"
  | .hashStoreRefsAlreadyExists => "HashStoreRefsAlreadyExists"
  | .pidRefsAlreadyExists => "PidRefsAlreadyExistsError"
  | .pidRefsDoesNotExist => "PidRefsDoesNotExist"
  | .orphanPidRefsFileFound => "OrphanPidRefsFileFound"
  | .pidNotFoundInCidRefsFile => "PidNotFoundInCidRefsFile"
  | .refsFileExistsButCidObjMissing => "RefsFileExistsButCidObjMissing"
  | .pidRefsFileNotFound => "PidRefsFileNotFound" | .cidRefsFileNotFound => "CidRefsFileNotFound"
  | .pidRefsContentError => "PidRefsContentError" | .cidRefsContentError => "CidRefsContentError"
  | .storeObjectInProgress => "StoreObjectForPidAlreadyInProgress"
  | .identifierNotLocked => "IdentifierNotLocked"
  | .blocked => "BLOCKED" | .modelBug => "MODELBUG"

instance {ε α : Type} [DecidableEq ε] [DecidableEq α] : DecidableEq (Except ε α) := fun a b =>
  match a, b with
  | .ok x, .ok y => if h : x = y then isTrue (by rw [h]) else isFalse (by intro e; cases e; exact h rfl)
  | .error x, .error y => if h : x = y then isTrue (by rw [h]) else isFalse (by intro e; cases e; exact h rfl)
  | .ok _, .error _ => isFalse (by intro e; cases e)
  | .error _, .ok _ => isFalse (by intro e; cases e)

/-- A Python string-typed argument as the API receives it. -/
inductive SArg
  | none                -- Python `None`
  | str (s : Str)       -- a `str`
  | other               -- some other type (int, bytes, list, …)
  deriving DecidableEq, Repr

/-- `_check_string(x, …)`: `None`, empty, all-space or containing whitespace ⇒ ValueError.
    A non-string that is not None has no `.strip` ⇒ AttributeError. -/
def checkString : SArg → Except Exc Str
  | .none => .error .valueError
  | .other => .error .attributeError
  | .str s => if checkStringOk s then .ok s else .error .valueError

/-- An integer-typed argument (`expected_object_size`). `_check_integer` accepts
    `bool` because `bool` is an `int` subclass; the harness sends True/False as
    `int 1`/`int 0`. -/
inductive IArg
  | none
  | int (i : Int)
  | other               -- str, float, …
  deriving DecidableEq, Repr

def checkInteger : IArg → Except Exc Unit
  | .none => .ok ()
  | .other => .error .typeError
  | .int i => if i < 1 then .error .valueError else .ok ()

end HS
