#!/bin/sh
# tools/clean_all.sh [tier] [seeds...]   — every check on the unchanged tree; prints what is not clean; exit 1 if anything
cd "$(dirname "$0")/.." || exit 2
TIER=${1:-quick}; shift 2>/dev/null
SEEDS="$@"; [ -z "$SEEDS" ] && SEEDS="0 1 2"
git -C /repo diff --quiet || { echo "/repo is dirty"; exit 2; }
bad=0; n=0
for s in $SEEDS; do
  for p in C01 C02 C03 C04 C05 C06 C07 C08 C09 C10 C11 C12 C13 C14 C15 C16 C17 C18 C19 C20; do
    out=$(VERIF_SEED=$s ./check $p $TIER 2>&1); rc=$?
    n=$((n+1))
    if [ $rc -ne 0 ] || echo "$out" | grep -q "^VIOLATION"; then
      bad=1; echo "NOT CLEAN: $p seed=$s rc=$rc"; echo "$out" | grep -E "^VIOLATION|seed=" | head -5
    fi
  done
done
echo "$n runs, $( [ $bad = 0 ] && echo all clean || echo SOME NOT CLEAN )"
exit $bad
