#!/usr/bin/env python3
"""tools/keep_mutant.py <scratch-dir> <seeded-id> <property> <needs> <caught-by comma list> [ran]"""
import json, os, shutil, sys
src, sid, prop, needs, caught = sys.argv[1:6]
ran = sys.argv[6] if len(sys.argv) > 6 else ""
dst = os.path.join("/verif/seeded", sid)
os.makedirs(dst, exist_ok=True)
for f in ("patch.diff", "demo.py", "notes.txt"):
    if os.path.exists(os.path.join(src, f)):
        shutil.copy(os.path.join(src, f), os.path.join(dst, f))
json.dump({"id": sid, "breaks_property": prop, "needs_to_manifest": needs,
           "confirmed": "patch applies to /repo HEAD; existing suite passes with it (250 passed, 3 skipped); demo.py exits 1 with the change and 0 without",
           "detected_by_checks": [c for c in caught.split(",") if c],
           "what_was_run": ran or "tools/mutant.sh patch.diff demo.py <checks> (apply to /repo, demo, suite, ./check <P> quick, undo)"},
          open(os.path.join(dst, "meta.json"), "w"), indent=1)
print("kept", dst)
