#!/usr/bin/env python3
"""Regenerates MANIFEST.json from the table below (kept in one place so it stays valid)."""
import json, os
V = os.path.dirname(os.path.dirname(os.path.abspath(__file__)))
BASE_NOTE = ("Trusted: Lean 4.33 kernel (+ propext, Classical.choice, Quot.sound only; audited each run), the "
             "hand-written model (tied to /repo by table equalities regenerated from the source and by the "
             "correspondence run of this check), hashlib digests and NoColl hypotheses, POSIX rename atomicity, the harness.")
P = {
 "C01": ("spec-level theorems: store reports digest+size, retrieve returns the stored content after any history without delete_object(pid) (induction over histories), chunked reading loses nothing for every buffer size; tied to the code by model/spec/real correspondence over all four data kinds, five store algorithms, sizes around buffer multiples",
         "refinement to abstract spec + induction over histories; differential correspondence", "7 C01"),
 "C02": ("normalisation laws for all strings (sound, idempotent, complete table of 12 names and 5 DataONE spellings), key-set characterisation of the per-call list, refutation of the as-found aliasing; table equalities against the source; correspondence on histories of several stores on one instance with every spelling",
         "algebraic laws + decision tables (decide) + table translation; differential correspondence", "7 C02"),
 "C03": ("spec-level theorems: tag/store on a bound pid is rejected with the documented classes and changes no binding and no existing object; other pids' bindings framed; rebind only after delete; correspondence on store/tag/delete histories",
         "refinement to abstract spec (frame + rejection lemmas); differential correspondence", "7 C03"),
 "C04": ("spec-level theorem: every call other than delete_object(q) preserves q's binding and its object's bytes, lifted to all histories by induction; last delete removes the object; correspondence with retrieval probes after every step",
         "invariant by induction over operations; differential correspondence", "7 C04"),
 "C05": ("concrete level: the two-index invariant RefsExact (every pid reference is the hash of a well-formed pid listed by its cid; every cid list is the rendering of a non-empty duplicate-free list of pids each bound to exactly that cid; no refs/objects temp file; no marker name among references and objects) is proved preserved by every public call with any arguments (closed forms of tag_object, delete_object incl. the missing-object branch, store_object; static RefsSafe discipline for the other six calls) and therefore after every completed call of every history from the empty store, run sequentially with no fault plan, for a collision-free identifier hash with hexadecimal values; abstract level: delete_object clears a bound pid from any state incl. dangling ones, objects appear only by being stored. Not proved: the object-set clause (unreferenced object only if stored without pid) at the concrete level, metadata temp files. The real directory is compared with the model after every call of every generated history (bookkeeping predicate + full state equality)",
         "invariant by induction over all histories on the concrete program text (symbolic closed forms + static effect discipline) + refinement to abstract spec; differential correspondence", "7 C05"),
 "C06": ("decision theorem: verdict = valid iff size ok and checksum equals the used digest case-insensitively, on both checksum paths; mismatch classes; refutation of the as-found case-sensitive path; correspondence over algorithms x spellings x checksum case x size x prior state",
         "decision logic stated outright; differential correspondence", "7 C06"),
 "C07": ("partial: the interleaving semantics extends the sequential one (a thread running alone computes the sequential result from any scheduling point); mutual exclusion for any number of threads and every schedule; static discipline of every call under every interleaving; the full statement is refuted by three decide-checked schedules (K1 dedupe window, K2 tag || delete, K5 store rejected during a delete) = known findings replayed on the real threads each run; section-level linearizability not proved. Real threads run the real calls under a controlled scheduler; each real schedule is replayed on the Lean interleaving model (results and final state agree) and judged against all sequential orders on the Lean spec",
         "interleaving semantics + monitor invariants + refutation witnesses; schedule-replay correspondence, linearizability oracle", "7 C07, 9"),
 "C08": ("every public call is lock-disciplined for all answers of the file system (class order objPid < refPid < cid < doc, releases what it holds, returns holding nothing) — proved for all nine call programs; run alone from free lists a call is never blocked and leaves the lists empty under every fault plan (induction over the program tree), also over whole histories; monitor model (wait-until-absent/append, remove/notify-one) for any number of threads: mutual exclusion, no lost wake-up, deadlock freedom, all free at quiescence. Trusted: Condition implements the monitor",
         "lock-discipline predicate over all program trees + monitor invariants by induction over transitions; scheduler and fault sweeps on the real code", "7 C08"),
 "C09": ("static effect discipline proved for every call and every response sequence (Shape): an object is published only at the address of its own digest; that invariant is preserved by every single effect, hence holds in the final state, at every crash prefix, in every intermediate state, under every fault plan and over whole histories; objects / documents / pid references change only by whole-file steps; the real call's intermediate directory states (snapshot after every mutating primitive) are compared with the model's and checked directly (every object hashes to its name, documents complete, pid references complete); in-place writes flagged",
         "invariant over all program trees (AllEv) + per-effect preservation, lifted to run / crash prefix / intermediate states; intermediate-state correspondence", "7 C09"),
 "C10": ("partial: for every call on pid p, at every crash point and under every fault plan, every other pid (distinct hash) keeps its pid reference and all its documents; pid-less calls touch none; objects stay well addressed. Not proved for the model: membership of other pids in shared lists and the delete-then-store recovery; both are checked on the real code at every crash point of every scripted scenario (reopened store on the snapshot directory)",
         "frame invariant over all program trees (AllEv) lifted to every crash prefix; crash-point sweep with recovery on the real code", "7 C10, 9"),
 "C12": ("partial: documents change only by whole-file steps (reader sees a complete version or not-found); document-name mutual exclusion for every schedule; two single-document deletes exclude each other; full statement refuted with delete-all in the menu (K3, decide-checked schedule, replayed on real threads); repaired defect D7. Scheduler runs of the metadata menu with replay on the Lean interleaving model and the linearizability oracle",
         "monitor invariants + atomicity lemma + refutation witness; schedule-replay correspondence", "7 C12, 9"),
 "C13": ("partial: the fault plan is part of the one interpreter, so the frame (other pids untouched) and addressing theorems hold under every plan; lemmas on how plans fire (one-off fires once, one-off rename absorbed by the copy fallback); the full statement is refuted for the model by a decide-checked witness (persistent read failure during tag_object leaves the pid half-bound, retry rejected) = known finding K4, replayed on the real code each run; model and code are run under the same plan at every fault site (once / persistent, EIO / ENOSPC / EACCES) and agree on result, state, locks and retry",
         "invariants over all program trees under the fault semantics + refutation witness; per-site fault-injection correspondence", "7 C13, 9"),
 "C11": ("spec-level theorems: store/retrieve round trip, default-namespace equivalence, isolation of other (pid, format) pairs, delete-one / delete-all / delete_object lifetimes, key injectivity under NoColl incl. concatenation-colliding pairs; correspondence on metadata histories",
         "refinement to abstract spec (map laws); differential correspondence", "7 C11"),
 "C16": ("partial: one program text and one monitor for both modes, so every theorem about calls and about the monitor holds in both; nothing left locked in either mode; exclusion and progress for any number of workers. Mode-specific code (existence of the _mp primitives — repaired defect D4 — and the duplicated sections) is tied by correspondence: sequential histories on a store built with USE_MULTIPROCESSING=True, and the C07/C12 menus under the scheduler through the _mp attributes; real forked workers as supporting evidence. Trusted: multiprocessing primitives behave across processes as threading ones across threads",
         "mode-independence of the model + monitor theorems; correspondence in multiprocessing mode", "7 C16, 9"),
 "C17": ("spec-level theorem: every error other than the four 'late' classes leaves the state unchanged, read-only calls always do; decision tables for the argument checkers; correspondence on a grammar of invalid arguments with byte-exact before/after snapshots",
         "frame theorem + decision tables; differential correspondence", "7 C17"),
 "C14": ("decision theorems over the configuration model: reopen succeeds iff depth/width (int-coerced), algorithm and namespace equal the stored ones; an existing yaml is never rewritten; data directories without a yaml are refused; creation iff one of the five DataONE names; table equalities (accepted algorithms, required keys, subfolders) against the source; grid of (creation, reopening) pairs with byte snapshots on the real constructor",
         "decision logic stated outright + table translation; differential correspondence on the constructor", "7 C14"),
 "C15": ("for all depth, width, strings: _shard as written equals the README layout; tokens concatenate to the key (injective), are non-empty, exact shape for proper configurations; path of each kind of file; yaml keys by table translation; grid of configurations with an independent path oracle and exhaustive shard grid",
         "algebraic laws by induction over depth; differential correspondence + independent layout oracle", "7 C15"),
 "C18": ("text lemmas for all strings: membership and removal in a reference list are whole-line operations (prefix / suffix / case variants unaffected), accepted identifiers contain no whitespace; paths consist of hash tokens only; frame theorem on the specification: a call addressed to one pid leaves every other pid's binding and documents unchanged; NoColl gives distinct locations; adversarial identifier generator on the real code incl. paths outside the root; exhaustive isspace sweep",
         "algebraic laws on text + frame theorem on the abstract spec; differential correspondence", "7 C18"),
 "C20": ("dispatch model of main(): every produced call is well typed (str/None identifiers, int/None size), decision table verb x options -> API call with the default-namespace substitution, missing required option -> ValueError and no call; refutation for the as-found str size; argparse table extracted from the source; client run in-process with a recording proxy vs the corresponding API call on a copy",
         "decision logic stated outright + table translation; differential run client vs API", "7 C20"),
 "C19": ("spec-level theorems: without validation data the one-call and the store-then-tag procedures reach the same state with the same outcome; both procedures judge by the same verdict (comparison with the true digest, independent of which digests were pre-computed); two-store differential run of both procedures on the real code",
         "refinement to abstract spec (convergence) + decision logic; two-procedure differential run", "7 C19"),
}
checks = []
for pid, (text, tech, ref) in sorted(P.items()):
    checks.append({
        "property_id": pid,
        "quick_cmd": "./check %s quick" % pid,
        "thorough_cmd": "./check %s thorough" % pid,
        "evidence_file": "evidence/%s.json" % pid,
        "replay_cmd_template": "./check %s --replay {path}" % pid,
        "engine": "lean-proof+correspondence",
        "level_claimed": {"category": "proof", "text": "Lean 4 theorems, kernel-checked each run, about the model/specification: " + text, "design_ref": "DESIGN.md section " + ref},
        "level_note": BASE_NOTE,
        "technique": "Lean 4 proof: " + tech,
    })
ALL = ["C%02d" % i for i in range(1, 21)]
na = [{"property_id": p, "reason": "check under construction in this round (Lean proof + correspondence planned, see DESIGN.md section 7); not yet claimed"} for p in ALL if p not in P]
m = {
 "version": 1,
 "setup_cmd": "./setup",
 "hooks": {"guard": "HASHSTORE_VERIF",
           "enable": "none needed: all instrumentation is applied by the harness at run time (monkeypatching from outside); no source hooks are committed",
           "baseline_off_cmd": "cd /repo && /venv/bin/python -m pytest -ra -q -p no:cacheprovider --timeout=900 --continue-on-collection-errors",
           "source_commits": [], "add_only": True},
 "engines": [
  {"name": "lean-proof+correspondence", "path": "lean/ , harness/hsv/", "serves_properties": sorted(P),
   "kind_free_text": "Lean 4 package HSModel (model, abstract spec, property theorems, table equalities regenerated from the source) + Python harness running the Lean model, the Lean spec and the real FileHashStore on the same inputs"}],
 "checks": checks,
 "notes": "Exit codes: 0 held, 1 VIOLATION, 2 infrastructure failure. VERIF_SEED honoured. Genuine defects repaired by fix: commits are listed in known_findings.json (status fixed).",
 "not_applicable": na,
}
json.dump(m, open(os.path.join(V, "MANIFEST.json"), "w"), indent=1)
print("checks:", len(checks), "not claimed:", len(na))
