#!/bin/sh
# tools/mutant.sh <patch.diff> <demo.py|-> <PROP> [PROP...]
# Applies the change to /repo, optionally confirms it (demo fails with it / passes without, suite passes),
# runs the named checks (quick), and always undoes the change.
PATCH=$1; DEMO=$2; shift 2
cd /repo || exit 2
git diff --quiet || { echo "/repo is dirty"; exit 2; }
if [ "$DEMO" != "-" ]; then
  /venv/bin/python "$DEMO" > /tmp/demo_clean.out 2>&1; echo "demo on clean tree: exit $?"
fi
git apply "$PATCH" || { echo "patch does not apply"; exit 2; }
trap 'git -C /repo checkout -- . ; echo "(change undone)"' EXIT
if [ "$DEMO" != "-" ]; then
  /venv/bin/python "$DEMO" > /tmp/demo_mut.out 2>&1; echo "demo with change: exit $?"
  if [ -z "$SKIP_SUITE" ]; then
    /venv/bin/python -m pytest -q -p no:cacheprovider --timeout=900 -x -q 2>&1 | tail -1
  fi
fi
cd /verif
for P in "$@"; do
  ./check "$P" ${TIER:-quick} 2>&1 | grep -E "VIOLATION|KNOWN|quick seed|thorough seed|Error|error" | cut -c1-400
done
