#!/bin/sh
# tools/regress_seeded.sh [seeded-id ...]
# Re-applies every kept change under seeded/ to /repo (one at a time, always undone) and runs the quick tier of
# the checks recorded as detecting it. Prints one line per (change, check): CAUGHT (a VIOLATION line with a
# concrete replay), UNSHOWN (only no-failing-input-found) or MISSED. Exit 1 if anything is MISSED.
cd "$(dirname "$0")/.." || exit 2
IDS="$@"; [ -z "$IDS" ] && IDS=$(ls seeded)
bad=0
for id in $IDS; do
  checks=$(python3 -c "import json,sys;print(' '.join(json.load(open('seeded/$id/meta.json'))['detected_by_checks']))")
  out=$(tools/mutant.sh "$PWD/seeded/$id/patch.diff" - $checks 2>&1)
  for P in $checks; do
    if echo "$out" | grep "VIOLATION property=$P " | grep -qv "no-failing-input-found"; then echo "CAUGHT  $id $P"
    elif echo "$out" | grep -q "VIOLATION property=$P "; then echo "UNSHOWN $id $P"
    else echo "MISSED  $id $P"; bad=1; fi
  done
done
git -C /repo status --short
exit $bad
